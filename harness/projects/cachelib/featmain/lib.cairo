use featlib::{consts, data, flow, generics, implicit_fns, literals, types};

fn use_consts(k: felt252) -> felt252 {
    let (a, b) = consts::PAIR;
    let n: felt252 = consts::NEG.into();
    let o: felt252 = match consts::OPT {
        Option::Some(v) => v.into(),
        Option::None => 0,
    };
    let [x, _y, z] = consts::ARR;
    let nz: u32 = consts::NZ.into();
    let big = consts::BIG;
    k + a.into() + b + n + o + x.into() + z.into() + nz.into() + consts::ST.x + consts::ST.y + big.low.into() + consts::SUM
}

fn use_implicits(x: felt252, y: u8) -> felt252 {
    let a = implicit_fns::checkpoint(x);
    let b = implicit_fns::hashy(a);
    let c = implicit_fns::two_implicits(b);
    let d = implicit_fns::always(y);
    let e = implicit_fns::never(d);
    implicit_fns::nopanic_fn(c) + e.into()
}

fn use_generics(w: u32, h: u32, first: bool) -> u32 {
    let a = generics::total(generics::Sq { w });
    let b = generics::total(generics::Rc { w, h });
    let c = generics::pick(a, b, first);
    let d: u32 = generics::sum_all([w, h, c].span());
    let e: felt252 = generics::sum_all([1, 2].span());
    let _ = e;
    d
}

fn use_flow(n: u8, m: u32, o: Option<u32>) -> felt252 {
    let k = if n == 0 {
        types::Kind::A
    } else if n == 1 {
        types::Kind::B(n)
    } else {
        types::Kind::C((n, 9))
    };
    let a = flow::classify(k);
    let b = flow::small(n);
    let c = flow::collatz(m);
    let d = match flow::find([1, 2, m].span(), m) {
        Option::Some(i) => i,
        Option::None => 99,
    };
    let e = flow::early(m);
    let f = flow::checked(n, 200);
    let g = flow::snap_len(@array![a, b]);
    let h = flow::closure_sum(m);
    let i = flow::let_else(o);
    let j = flow::if_let(o);
    a + b + c.into() + d.into() + e.into() + f.into() + g.into() + h.into() + i.into() + j.into()
}

fn use_data(k: felt252, v: u64, x: u128, s: i64) -> felt252 {
    let a = data::dict_roundtrip(k, v);
    let b = data::boxed(x);
    let c = data::nullable(k);
    let d = data::bytes(7);
    let e = data::wide(x, x);
    let f = data::signed(s, 3);
    let [p, _q, _r, t] = data::arr_lit();
    let g = data::span_lit();
    let point = types::Point { x: k, y: c };
    let bag = types::Bag { items: array![1], tag: k };
    let same = point == types::Point { x: c, y: k };
    let ff: felt252 = f.into();
    a.into() + b.into() + c + d.len().into() + e.low.into() + ff + p.into() + t.into() + *g.at(1) + bag.tag + bag.items.len().into() + if same { 1 } else { 0 }
}

fn use_literals(x: u256, flag: bool, n: u32) -> felt252 {
    let a = literals::big(x);
    let p = literals::origin(flag);
    let t = literals::third(n);
    let (q, (r, s)) = literals::pair();
    let m = match literals::maybe() {
        Option::Some(v) => v.low,
        Option::None => 0,
    };
    let sf: felt252 = s.into();
    a.low.into() + p.x + p.y + t.into() + q.into() + r.into() + sf + m.into()
}
