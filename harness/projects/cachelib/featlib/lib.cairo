pub mod consts {
    pub const NEG: i32 = -7;
    pub const BIG: u256 = 0x100000000000000000000000000000001;
    pub const PAIR: (u8, felt252) = (3, -1);
    pub const ST: super::types::Point = super::types::Point { x: 1, y: -2 };
    pub const OPT: Option<u16> = Option::Some(9);
    pub const ARR: [u8; 3] = [1, 2, 3];
    pub const NZ: NonZero<u32> = 5;
    pub const SUM: felt252 = NEG_FELT + 10;
    const NEG_FELT: felt252 = -3;
}

pub mod types {
    #[derive(Copy, Drop, PartialEq, Debug)]
    pub struct Point {
        pub x: felt252,
        pub y: felt252,
    }
    #[derive(Copy, Drop, PartialEq)]
    pub enum Kind {
        A,
        B: u8,
        C: (u8, u16),
    }
    #[derive(Drop)]
    pub struct Bag {
        pub items: Array<u32>,
        pub tag: felt252,
    }
}

pub mod implicit_fns {
    #[inline(never)]
    pub fn checkpoint(x: felt252) -> felt252 implicits(core::RangeCheck) {
        x + 1
    }
    #[inline(never)]
    pub fn hashy(x: felt252) -> felt252 implicits(core::pedersen::Pedersen) {
        x * 2
    }
    #[inline(never)]
    pub fn two_implicits(x: felt252) -> felt252 implicits(core::RangeCheck, core::integer::Bitwise) nopanic {
        x
    }
    #[inline(always)]
    pub fn always(x: u8) -> u8 {
        x ^ 0x55
    }
    #[inline(never)]
    pub fn never(x: u8) -> u8 {
        x & 0x0f
    }
    pub fn nopanic_fn(x: felt252) -> felt252 nopanic {
        x
    }
}

pub mod generics {
    pub trait Shape<T> {
        fn area(self: @T) -> u32;
        fn double_area(self: @T) -> u32 {
            Self::area(self) * 2
        }
    }
    #[derive(Copy, Drop)]
    pub struct Sq {
        pub w: u32,
    }
    #[derive(Copy, Drop)]
    pub struct Rc {
        pub w: u32,
        pub h: u32,
    }
    pub impl SqShape of Shape<Sq> {
        fn area(self: @Sq) -> u32 {
            let s = *self;
            s.w * s.w
        }
    }
    pub impl RcShape of Shape<Rc> {
        fn area(self: @Rc) -> u32 {
            let s = *self;
            s.w * s.h
        }
        fn double_area(self: @Rc) -> u32 {
            7
        }
    }
    pub fn total<T, +Shape<T>, +Drop<T>>(t: T) -> u32 {
        t.area() + t.double_area()
    }
    pub fn pick<T, +Copy<T>, +Drop<T>>(a: T, b: T, first: bool) -> T {
        if first {
            a
        } else {
            b
        }
    }
    pub fn sum_all<T, +Add<T>, +Copy<T>, +Drop<T>, +Default<T>>(s: Span<T>) -> T {
        let mut acc = Default::default();
        for x in s {
            acc = acc + *x;
        }
        acc
    }
}

pub mod flow {
    use super::types::Kind;
    pub fn classify(k: Kind) -> felt252 {
        match k {
            Kind::A => 0,
            Kind::B(v) => v.into(),
            Kind::C((a, b)) => a.into() + b.into(),
        }
    }
    pub fn small(n: u8) -> felt252 {
        match n {
            0 => 'zero',
            1 => 'one',
            2 | 3 => 'few',
            _ => 'many',
        }
    }
    pub fn collatz(mut n: u32) -> u32 {
        let mut steps = 0;
        while n != 1 {
            if n % 2 == 0 {
                n = n / 2;
            } else {
                n = 3 * n + 1;
            }
            steps += 1;
            if steps > 50 {
                break;
            }
        }
        steps
    }
    pub fn find(s: Span<u32>, needle: u32) -> Option<usize> {
        let mut i = 0;
        loop {
            if i >= s.len() {
                break Option::None;
            }
            if *s.at(i) == needle {
                break Option::Some(i);
            }
            i += 1;
        }
    }
    pub fn early(x: u32) -> u32 {
        if x > 10 {
            return 10;
        }
        if x == 3 {
            panic!("three is not allowed: {}", x);
        }
        x
    }
    pub fn checked(a: u8, b: u8) -> u8 {
        assert!(a < b, "a must be below b");
        b - a
    }
    pub fn snap_len(a: @Array<felt252>) -> usize {
        a.len()
    }
    pub fn closure_sum(k: u32) -> u32 {
        let add = |x: u32| x + k;
        add(1) + add(2)
    }
    pub fn let_else(o: Option<u32>) -> u32 {
        let Option::Some(v) = o else {
            return 0;
        };
        v
    }
    pub fn if_let(o: Option<u32>) -> u32 {
        if let Option::Some(v) = o {
            v + 1
        } else {
            0
        }
    }
}

pub mod literals {
    use super::types::Point;
    // Composite constants inside function bodies (not only in const items).
    pub fn big(x: u256) -> u256 {
        x + 0x500000000000000000000000000000001
    }
    #[inline(never)]
    pub fn origin(flag: bool) -> Point {
        if flag {
            Point { x: 3, y: -4 }
        } else {
            Point { x: 0, y: 0 }
        }
    }
    pub fn third(x: u32) -> u32 {
        let d: NonZero<u32> = 3;
        x / d.into()
    }
    #[inline(always)]
    pub fn pair() -> (u64, (u8, i16)) {
        (18446744073709551615, (255, -32768))
    }
    pub fn maybe() -> Option<u256> {
        Option::Some(7)
    }
}

pub mod data {
    use core::dict::Felt252Dict;
    pub fn dict_roundtrip(k: felt252, v: u64) -> u64 {
        let mut d: Felt252Dict<u64> = Default::default();
        d.insert(k, v);
        d.get(k) + d.get(k + 1)
    }
    pub fn boxed(x: u128) -> u128 {
        let b = BoxTrait::new((x, x + 1));
        let (a, c) = b.unbox();
        a ^ c
    }
    pub fn nullable(x: felt252) -> felt252 {
        let n: Nullable<felt252> = NullableTrait::new(x);
        n.deref()
    }
    pub fn bytes(n: u32) -> ByteArray {
        let mut s: ByteArray = "n=";
        s.append_word('abc', 3);
        format!("{}{}", s, n)
    }
    pub fn wide(a: u128, b: u128) -> u256 {
        core::num::traits::WideMul::wide_mul(a, b)
    }
    pub fn signed(a: i64, b: i64) -> i64 {
        if a < 0 {
            -a + b
        } else {
            a - b
        }
    }
    pub fn arr_lit() -> [u16; 4] {
        [1, 2, 3, 4]
    }
    pub fn span_lit() -> Span<felt252> {
        [10, 20, 30].span()
    }
}
