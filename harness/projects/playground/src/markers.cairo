// Types that occur only in function signatures (zero-sized, passed through untouched).
#[derive(Copy, Drop)]
pub struct First {}
#[derive(Copy, Drop)]
pub struct Second {}
#[derive(Copy, Drop)]
pub struct Third {}
#[derive(Copy, Drop)]
pub enum Never {}

pub fn pass_first(a: First) -> First {
    a
}
pub fn pass_second(a: Second) -> Second {
    a
}
pub fn pass_third(a: Third) -> Third {
    a
}
#[derive(Copy, Drop)]
pub struct Fourth {}
pub fn pass_fourth(a: Fourth) -> Fourth {
    a
}
pub fn pair_up(a: Third, b: First) -> (Third, First) {
    (a, b)
}
pub fn keep(n: Never) -> Never {
    n
}
