#[derive(Drop)]
pub struct Account {
    pub id: u32,
    pub funds: felt252,
    pub history: Array<felt252>,
}

pub trait AccountOps {
    fn deposit(ref self: Account, amount: felt252);
    fn entries(self: @Account) -> usize;
}

pub impl AccountOpsImpl of AccountOps {
    fn deposit(ref self: Account, amount: felt252) {
        self.funds += amount;
        self.history.append(amount);
    }
    fn entries(self: @Account) -> usize {
        self.history.len()
    }
}

pub fn open(id: u32, initial: felt252) -> Account {
    let mut acc = Account { id, funds: 0, history: array![] };
    acc.deposit(initial);
    acc.deposit(1);
    acc
}

pub fn balance(acc: @Account) -> felt252 {
    let n: felt252 = acc.entries().into();
    *acc.funds + n
}
