mod shapes;
mod ledger;
mod mathx;
mod text;
mod markers;

fn total(a: felt252, b: felt252) -> felt252 {
    let p = shapes::Point { x: a, y: b, tag: 3 };
    let q = shapes::mirror(p);
    let s = shapes::area(shapes::Shape::Rect((q.x, q.y)));
    let acc = ledger::open(7, s);
    ledger::balance(@acc) + mathx::mix(a, b) + text::weight(text::Token::Word(4))
}
