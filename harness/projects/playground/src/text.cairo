#[derive(Copy, Drop)]
pub enum Token {
    Word: u32,
    Space,
    Number: felt252,
}

pub fn weight(t: Token) -> felt252 {
    match t {
        Token::Word(n) => n.into(),
        Token::Space => 1,
        Token::Number(v) => v,
    }
}

pub fn pair(a: Token, b: Token) -> (felt252, felt252) {
    let wa = weight(a);
    let wb = weight(b);
    (wa, wb)
}
