#[derive(Copy, Drop)]
pub struct Point {
    pub x: felt252,
    pub y: felt252,
    pub tag: u8,
}

#[derive(Copy, Drop)]
pub enum Shape {
    Dot,
    Rect: (felt252, felt252),
    Square: felt252,
}

pub fn mirror(p: Point) -> Point {
    let Point { x, y, tag } = p;
    Point { x: y, y: x, tag }
}

pub fn area(s: Shape) -> felt252 {
    match s {
        Shape::Dot => 0,
        Shape::Rect((w, h)) => w * h,
        Shape::Square(w) => w * w,
    }
}

pub fn shift(p: Point, dx: felt252, dy: felt252) -> Point {
    let nx = p.x + dx;
    let ny = p.y + dy;
    Point { x: nx, y: ny, tag: p.tag }
}
