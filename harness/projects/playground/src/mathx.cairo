pub const BASE: felt252 = 17;
pub const STEP: felt252 = BASE + 2;

pub fn mix(a: felt252, b: felt252) -> felt252 {
    let u = a * BASE;
    let v = b + STEP;
    twice(u) - v
}

pub fn twice<T, +Add<T>, +Copy<T>, +Drop<T>>(t: T) -> T {
    t + t
}

pub fn clamp(v: u32, lo: u32, hi: u32) -> u32 {
    if v < lo {
        lo
    } else if v > hi {
        hi
    } else {
        v
    }
}
