// Functions with ownership errors whose diagnostics carry located notes.
fn consume(a: Array<felt252>) -> usize {
    a.len()
}

fn moved_twice(flag: bool) -> usize {
    let a = array![1, 2, 3];
    let first = consume(a);
    let second = consume(a);
    first + second
}

fn moved_in_branch(flag: bool) -> usize {
    let data = array![4];
    if flag {
        let _n = consume(data);
    }
    consume(data)
}

fn ok_between(x: felt252) -> felt252 {
    x * 2
}

fn moved_in_loop(k: u32) -> usize {
    let items = array![7, 8];
    let mut total = 0;
    let mut i = 0;
    while i < k {
        total += consume(items);
        i += 1;
    }
    total
}
