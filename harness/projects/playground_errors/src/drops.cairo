// Values of a type without Drop that are still alive where the function may panic or return.
struct Token {
    id: felt252,
}

fn finish(t: Token) {
    let Token { id: _ } = t;
}

fn may_panic(x: u8) -> u8 {
    x + 1
}

fn dropped_on_panic(x: u8) -> u8 {
    let t = Token { id: 1 };
    let y = may_panic(x);
    finish(t);
    y
}

fn never_consumed(x: u8) -> u8 {
    let _t = Token { id: 2 };
    x
}

fn consumed_on_one_path(flag: bool) {
    let t = Token { id: 3 };
    if flag {
        finish(t);
    }
}
