mod moves;
mod drops;

fn fine(a: felt252) -> felt252 {
    a + 1
}
