//! C07: compile-time evaluation (const items, const fn calls, constant folding) agrees with
//! run-time evaluation. The oracle is the other implementation inside the same toolchain: the
//! run-time libfuncs executing the same expression with its literals passed as opaque arguments.

use std::collections::{BTreeMap, BTreeSet};

use cairo_lang_compiler::diagnostics::DiagnosticsReporter;
use cairo_lang_runner::Arg;
use num_bigint::BigInt;
use rayon::prelude::*;
use serde_json::json;

use crate::comp::{self, Config, Inl, Plugins};
use crate::exec::{self, Prog};
use crate::execchecks::AMPLE_GAS;
use crate::frontend::{guarded, install_panic_hook, panic_sig};
use crate::metamorph::{Obs, observe};
use crate::opmatrix::{TYPES, Ty, TyKind};
use crate::report::{Ctx, ShardResult};
use crate::rng::{Rng, fnv_str};

#[derive(Clone, Debug)]
enum E {
    /// Leaf: literal of a type; `usize` is the leaf index (parameter of the twin).
    Lit(Ty, BigInt, usize),
    Bin(&'static str, Box<E>, Box<E>),
    Neg(Box<E>),
    If(Box<B>, Box<E>, Box<E>),
    /// `{ let a = e1; let b = e2; a <op> b }`
    Let(&'static str, Box<E>, Box<E>),
    /// `{ let (a, _b) = (e1, e2); a }` / second
    TupleProj(bool, Box<E>, Box<E>),
    /// `Pair_T { a: e1, b: e2 }.a|b`
    Field(bool, Box<E>, Box<E>),
    /// const fn call `cf_T(e1, e2)` = a * b + a
    Call(Box<E>, Box<E>),
    /// Conversion from an expression of another integer type: `.into()` (widening) or
    /// `.try_into().unwrap()`.
    Cast(Ty, Box<E>, bool),
    /// `match Option::Some(e) { Some(x) => x <op> k, None => 0 }`
    MatchSome(&'static str, Box<E>, Box<E>),
    /// `{ let (dq, dr) = DivRem::div_rem(e, <non-zero literal leaf>); dq | dr }`
    DivRem(bool, Box<E>, Box<E>),
}

#[derive(Clone, Debug)]
enum B {
    Lit(bool),
    Cmp(&'static str, Box<E>, Box<E>),
    And(Box<B>, Box<B>),
    Or(Box<B>, Box<B>),
    Not(Box<B>),
}

struct Gen<'a> {
    rng: &'a mut Rng,
    leaves: Vec<(Ty, BigInt)>,
}

fn int_types() -> Vec<Ty> {
    TYPES.iter().filter(|t| t.kind != TyKind::U256).cloned().collect()
}

impl Gen<'_> {
    fn lit(&mut self, t: Ty) -> E {
        let v = if self.rng.chance(3, 5) { self.rng.pick(&t.boundaries()).clone() } else if self.rng.chance(1, 2) { BigInt::from(self.rng.below(20)) } else { t.random(self.rng) };
        let v = if t.contains(&v) { v } else { BigInt::from(1) };
        self.leaves.push((t, v.clone()));
        E::Lit(t, v, self.leaves.len() - 1)
    }
    fn expr(&mut self, t: Ty, depth: usize) -> E {
        if depth == 0 || self.rng.chance(1, 4) {
            return self.lit(t);
        }
        let arith: &[&'static str] = if t.kind == TyKind::Felt { &["+", "-", "*"] } else { &["+", "-", "*", "/", "%"] };
        match self.rng.below(12) {
            0..=3 => {
                let ops: Vec<&'static str> = if t.kind == TyKind::Unsigned && self.rng.chance(1, 4) { vec!["&", "|", "^"] } else { arith.to_vec() };
                let op = *self.rng.pick(&ops);
                E::Bin(op, Box::new(self.expr(t, depth - 1)), Box::new(self.expr(t, depth - 1)))
            }
            4 if t.kind != TyKind::Unsigned => E::Neg(Box::new(self.expr(t, depth - 1))),
            5 => E::If(Box::new(self.bexpr(depth - 1)), Box::new(self.expr(t, depth - 1)), Box::new(self.expr(t, depth - 1))),
            6 => E::Let(*self.rng.pick(arith), Box::new(self.expr(t, depth - 1)), Box::new(self.expr(t, depth - 1))),
            7 => E::TupleProj(self.rng.bool(), Box::new(self.expr(t, depth - 1)), Box::new(self.expr(t, depth - 1))),
            8 if t.kind != TyKind::Felt => E::Field(self.rng.bool(), Box::new(self.expr(t, depth - 1)), Box::new(self.expr(t, depth - 1))),
            9 => E::Call(Box::new(self.expr(t, depth - 1)), Box::new(self.expr(t, depth - 1))),
            10 => {
                let others: Vec<Ty> = int_types().into_iter().filter(|u| u.name != t.name).collect();
                let u = *self.rng.pick(&others);
                // `into` only where a widening impl exists: same signedness, fewer bits (or to felt252).
                let widening = (u.kind == t.kind && u.bits < t.bits && t.kind != TyKind::Felt) || (t.kind == TyKind::Felt && u.kind != TyKind::Felt);
                let use_into = widening && self.rng.bool();
                E::Cast(u, Box::new(self.expr(u, depth - 1)), use_into)
            }
            11 if t.kind != TyKind::Felt && self.rng.bool() => {
                // The divisor is a literal (typed `NonZero<T>` by the compiler), never zero.
                let a = self.expr(t, depth - 1);
                let mut b = self.lit(t);
                if let E::Lit(_, v, i) = &mut b {
                    if v == &BigInt::from(0) {
                        *v = BigInt::from(if t.kind == TyKind::Signed && self.rng.bool() { -3 } else { 3 });
                        self.leaves[*i].1 = v.clone();
                    }
                }
                E::DivRem(self.rng.bool(), Box::new(a), Box::new(b))
            }
            _ => E::MatchSome(*self.rng.pick(arith), Box::new(self.expr(t, depth - 1)), Box::new(self.expr(t, depth - 1))),
        }
    }
    fn bexpr(&mut self, depth: usize) -> B {
        if depth == 0 {
            return B::Lit(self.rng.bool());
        }
        match self.rng.below(6) {
            0..=2 => {
                let t = *self.rng.pick(&int_types());
                let ops: &[&'static str] = if t.kind == TyKind::Felt { &["==", "!="] } else { &["==", "!=", "<", "<=", ">", ">="] };
                let op = *self.rng.pick(ops);
                B::Cmp(op, Box::new(self.expr(t, depth - 1)), Box::new(self.expr(t, depth - 1)))
            }
            3 => B::And(Box::new(self.bexpr(depth - 1)), Box::new(self.bexpr(depth - 1))),
            4 => B::Or(Box::new(self.bexpr(depth - 1)), Box::new(self.bexpr(depth - 1))),
            _ => B::Not(Box::new(self.bexpr(depth - 1))),
        }
    }
}

fn lit_text(t: Ty, v: &BigInt) -> String {
    if v < &BigInt::from(0) { format!("(-{}_{})", -v, t.name) } else { format!("{v}_{}", t.name) }
}

/// Renders an expression; `as_params` renders leaves as `x<i>` instead of literals.
fn render(e: &E, as_params: bool) -> String {
    let r = |e: &E| render(e, as_params);
    match e {
        E::Lit(t, v, i) => if as_params { format!("x{i}") } else { lit_text(*t, v) },
        E::Bin(op, a, b) => format!("({} {op} {})", r(a), r(b)),
        E::Neg(a) => format!("(-{})", r(a)),
        E::If(c, a, b) => format!("(if {} {{ {} }} else {{ {} }})", render_b(c, as_params), r(a), r(b)),
        E::Let(op, a, b) => format!("{{ let la = {}; let lb = {}; la {op} lb }}", r(a), r(b)),
        E::TupleProj(first, a, b) => format!("{{ let (ta, tb) = ({}, {}); {} }}", r(a), r(b), if *first { "{ let _k = tb; ta }" } else { "{ let _k = ta; tb }" }),
        E::Field(first, a, b) => format!("(Pair {{ a: {}, b: {} }}).{}", r(a), r(b), if *first { "a" } else { "b" }),
        E::Call(a, b) => format!("cf({}, {})", r(a), r(b)),
        E::Cast(_, a, into) => if *into { format!("({}).into()", r(a)) } else { format!("({}).try_into().unwrap()", r(a)) },
        E::MatchSome(op, a, b) => format!("(match Option::Some({}) {{ Option::Some(mx) => mx {op} {}, Option::None => {} }})", r(a), r(b), r(b)),
        E::DivRem(first, a, b) => {
            // As a constant the divisor is an untyped literal; at run time it is converted.
            let divisor = match (&**b, as_params) {
                (E::Lit(_, _, i), true) => format!("(x{i}).try_into().unwrap()"),
                (E::Lit(_, v, _), false) => format!("{v}"),
                _ => unreachable!(),
            };
            format!("{{ let (dq, dr) = DivRem::div_rem({}, {divisor}); {} }}", r(a), if *first { "{ let _k = dr; dq }" } else { "{ let _k = dq; dr }" })
        }
    }
}

fn render_b(b: &B, as_params: bool) -> String {
    match b {
        B::Lit(v) => v.to_string(),
        B::Cmp(op, a, c) => format!("({} {op} {})", render(a, as_params), render(c, as_params)),
        B::And(a, c) => format!("({} && {})", render_b(a, as_params), render_b(c, as_params)),
        B::Or(a, c) => format!("({} || {})", render_b(a, as_params), render_b(c, as_params)),
        B::Not(a) => format!("(!{})", render_b(a, as_params)),
    }
}

pub struct Case {
    pub ty: Ty,
    pub const_text: String,
    pub twin_text: String,
    pub leaves: Vec<(Ty, BigInt)>,
    pub forms: BTreeSet<&'static str>,
}

fn forms(e: &E, out: &mut BTreeSet<&'static str>) {
    match e {
        E::Lit(..) => {}
        E::Bin(op, a, b) => {
            out.insert(match *op { "+" => "add", "-" => "sub", "*" => "mul", "/" => "div", "%" => "rem", "&" => "and", "|" => "or", _ => "xor" });
            forms(a, out);
            forms(b, out);
        }
        E::Neg(a) => {
            out.insert("neg");
            forms(a, out);
        }
        E::If(c, a, b) => {
            out.insert("if");
            forms_b(c, out);
            forms(a, out);
            forms(b, out);
        }
        E::Let(_, a, b) => {
            out.insert("block-let");
            forms(a, out);
            forms(b, out);
        }
        E::TupleProj(_, a, b) => {
            out.insert("tuple-destructure");
            forms(a, out);
            forms(b, out);
        }
        E::Field(_, a, b) => {
            out.insert("struct-member");
            forms(a, out);
            forms(b, out);
        }
        E::Call(a, b) => {
            out.insert("const-fn-call");
            forms(a, out);
            forms(b, out);
        }
        E::Cast(_, a, into) => {
            out.insert(if *into { "into" } else { "try_into-unwrap" });
            forms(a, out);
        }
        E::MatchSome(_, a, b) => {
            out.insert("match-enum");
            forms(a, out);
            forms(b, out);
        }
        E::DivRem(_, a, _) => {
            out.insert("div_rem-call");
            forms(a, out);
        }
    }
}
fn forms_b(b: &B, out: &mut BTreeSet<&'static str>) {
    match b {
        B::Lit(_) => {}
        B::Cmp(_, a, c) => {
            out.insert("compare");
            forms(a, out);
            forms(c, out);
        }
        B::And(a, c) | B::Or(a, c) => {
            out.insert("logical");
            forms_b(a, out);
            forms_b(c, out);
        }
        B::Not(a) => {
            out.insert("not");
            forms_b(a, out);
        }
    }
}

pub fn gen_case(rng: &mut Rng) -> Case {
    let t = *rng.pick(&int_types());
    let depth = 1 + rng.below(3);
    let mut g = Gen { rng, leaves: vec![] };
    let e = g.expr(t, depth);
    let mut f = BTreeSet::new();
    forms(&e, &mut f);
    Case { ty: t, const_text: render(&e, false), twin_text: render(&e, true), leaves: g.leaves, forms: f }
}

/// The source of a batch; `drop_const` lists the cases whose const item is omitted and
/// `drop_all` the cases omitted entirely. Returns the source and, per line, the owning case.
pub fn batch_source(cases: &[Case], drop_const: &BTreeSet<usize>, drop_all: &BTreeSet<usize>) -> (String, Vec<Option<(usize, char)>>) {
    let mut s = String::new();
    let mut owners: Vec<Option<(usize, char)>> = vec![];
    let mut push = |s: &mut String, owners: &mut Vec<Option<(usize, char)>>, line: String, owner: Option<(usize, char)>| {
        for l in line.lines() {
            s.push_str(l);
            s.push('\n');
            owners.push(owner);
        }
    };
    // One Pair struct and one const fn per type live in per-type modules.
    for (i, c) in cases.iter().enumerate() {
        if drop_all.contains(&i) {
            continue;
        }
        let t = c.ty.name;
        push(&mut s, &mut owners, format!("mod m{i} {{"), None);
        push(&mut s, &mut owners, format!("    #[derive(Copy, Drop)] pub struct Pair {{ pub a: {t}, pub b: {t} }}"), None);
        push(&mut s, &mut owners, format!("    pub const fn cf(a: {t}, b: {t}) -> {t} {{ a * b + a }}"), None);
        if !drop_const.contains(&i) {
            push(&mut s, &mut owners, format!("    pub const C: {t} = {};", c.const_text), Some((i, 'c')));
            push(&mut s, &mut owners, format!("    pub fn get_c() -> {t} {{ C }}"), Some((i, 'c')));
        }
        let params: Vec<String> = c.leaves.iter().enumerate().map(|(k, (lt, _))| format!("x{k}: {}", lt.name)).collect();
        push(&mut s, &mut owners, format!("    pub fn f({}) -> {t} {{ {} }}", params.join(", "), c.twin_text), Some((i, 'f')));
        push(&mut s, &mut owners, format!("    pub fn g() -> {t} {{ {} }}", c.const_text), Some((i, 'g')));
        push(&mut s, &mut owners, "}".to_string(), None);
    }
    (s, owners)
}

#[derive(Clone, Debug, PartialEq)]
enum ConstVerdict {
    Accepted,
    /// Rejected because evaluation failed (overflow, division by zero, failed unwrap).
    EvalFailure(String),
    /// Rejected for another reason: outside the property's domain.
    Other(String),
}

/// Collects error diagnostics per source line (1-based).
fn error_lines(source: &str) -> Result<BTreeMap<usize, Vec<String>>, String> {
    let db = comp::build_db(&Config::DEFAULT, Plugins::Default);
    let c = comp::virtual_crate("test", source, &comp::default_settings(), None);
    let mut entries: Vec<String> = vec![];
    {
        let mut rep = DiagnosticsReporter::callback(|e| {
            let text = e.to_string();
            if text.starts_with("error") {
                entries.push(text);
            }
        })
        .with_crates(std::slice::from_ref(&c));
        rep.check(&db);
    }
    let mut out: BTreeMap<usize, Vec<String>> = BTreeMap::new();
    for e in entries {
        // " --> lib.cairo:LINE:COL"
        let line = e
            .lines()
            .find_map(|l| l.trim_start().strip_prefix("--> lib.cairo:"))
            .and_then(|r| r.split(':').next())
            .and_then(|n| n.parse::<usize>().ok());
        match line {
            Some(n) => out.entry(n).or_default().push(e.lines().next().unwrap_or("").to_string()),
            None => out.entry(0).or_default().push(e.lines().next().unwrap_or("").to_string()),
        }
    }
    Ok(out)
}

fn is_eval_failure(msg: &str) -> bool {
    msg.contains("does not fit within the range") || msg.contains("Division by zero") || msg.contains("Failed to calculate constant")
}

pub fn run_batch(acc: &mut ShardResult, seed: u64, batch: u64, size: usize) {
    let mut rng = Rng::derive(seed, &[7, batch]);
    let cases: Vec<Case> = (0..size).map(|_| gen_case(&mut rng)).collect();
    // Pass 1: which const items are rejected, and why.
    let mut drop_const = BTreeSet::new();
    let mut drop_all = BTreeSet::new();
    let mut verdicts: Vec<ConstVerdict> = vec![ConstVerdict::Accepted; cases.len()];
    for _round in 0..4 {
        let (src, owners) = batch_source(&cases, &drop_const, &drop_all);
        let errs = match guarded(|| error_lines(&src)) {
            Ok(Ok(e)) => e,
            Ok(Err(e)) => {
                acc.inconclusive(&format!("diagnostics failed: {e}"));
                return;
            }
            Err((loc, msg)) => {
                acc.violation(&format!("panic:{}", panic_sig(&loc, &msg)), &format!("diagnostics of a const batch panicked at {loc}: {msg}"), json!({"seed": seed, "batch": batch, "size": size}));
                return;
            }
        };
        if errs.is_empty() {
            break;
        }
        let mut progressed = false;
        for (line, msgs) in errs {
            let owner = if line >= 1 { owners.get(line - 1).cloned().flatten() } else { None };
            match owner {
                Some((i, 'c')) => {
                    let m = msgs.join(" | ");
                    verdicts[i] = if msgs.iter().any(|m| is_eval_failure(m)) { ConstVerdict::EvalFailure(m) } else { ConstVerdict::Other(m) };
                    progressed |= drop_const.insert(i);
                }
                Some((i, _)) => {
                    // The run-time twin itself does not compile: the expression is outside the
                    // generator's intended domain.
                    verdicts[i] = ConstVerdict::Other(msgs.join(" | "));
                    progressed |= drop_all.insert(i);
                }
                None => {}
            }
        }
        if !progressed {
            acc.inconclusive("batch has errors that cannot be attributed to a case");
            return;
        }
    }
    for v in &verdicts {
        match v {
            ConstVerdict::Accepted => acc.count("consts_accepted", 1),
            ConstVerdict::EvalFailure(_) => acc.count("consts_rejected_by_evaluation", 1),
            ConstVerdict::Other(m) => {
                acc.count("cases_outside_domain", 1);
                acc.set_add("outside_domain_reasons", &m.chars().filter(|c| !c.is_ascii_digit()).take(70).collect::<String>());
            }
        }
    }
    // Pass 2: compile what is left under both const-folding settings and run.
    let (src, _) = batch_source(&cases, &drop_const, &drop_all);
    let cf_on = Config::DEFAULT;
    let cf_off = Config { opt: Some((Inl::Default, true)), ..Config::DEFAULT };
    let mut progs = vec![];
    for cfg in [cf_on, cf_off] {
        let r = guarded(|| {
            let p = comp::compile_text(&cfg, Plugins::Default, &src)?;
            Prog::new(p, Some(exec::metadata_config(true, Default::default())))
        });
        match r {
            Ok(Ok(p)) => progs.push(p),
            Ok(Err(e)) => {
                acc.inconclusive(&format!("batch does not compile after removing rejected consts: {}", e.lines().nth(1).unwrap_or("").chars().take(80).collect::<String>()));
                return;
            }
            Err((loc, msg)) => {
                acc.violation(&format!("panic:{}", panic_sig(&loc, &msg)), &format!("compiling a const batch panicked at {loc}: {msg}"), json!({"seed": seed, "batch": batch, "size": size}));
                return;
            }
        }
    }
    for (i, c) in cases.iter().enumerate() {
        if drop_all.contains(&i) || matches!(verdicts[i], ConstVerdict::Other(_)) {
            continue;
        }
        acc.eval();
        let replay = json!({"seed": seed, "batch": batch, "size": size, "case": i, "const": format!("const C: {} = {};", c.ty.name, c.const_text),
            "twin": c.twin_text, "operands": c.leaves.iter().map(|(t, v)| format!("{v}_{}", t.name)).collect::<Vec<_>>()});
        let mut args: Vec<Arg> = vec![];
        for (t, v) in &c.leaves {
            args.extend(t.args(v));
        }
        let run = |p: &Prog, name: &str, args: Vec<Arg>| -> Option<Obs> {
            let f = p.runner.find_function(&format!("test::m{i}::{name}")).ok()?.clone();
            let rec = exec::run(p, &f, args, Some(AMPLE_GAS));
            Some(observe(p, &f, &rec))
        };
        let Some(twin) = run(&progs[0], "f", args.clone()) else {
            acc.inconclusive("twin not found");
            continue;
        };
        if !matches!(twin, Obs::Value(_) | Obs::Panic(_)) {
            acc.inconclusive("twin run not comparable");
            continue;
        }
        let mut fail = |sig: &str, desc: String| {
            acc.violation(sig, &format!("{desc} [const C: {} = {}; operands {:?}]", c.ty.name, c.const_text, c.leaves.iter().map(|(_, v)| v.to_string()).collect::<Vec<_>>()), replay.clone());
        };
        let mut ok = true;
        match &verdicts[i] {
            ConstVerdict::Accepted => {
                let cval = run(&progs[0], "get_c", vec![]);
                match (&cval, &twin) {
                    (Some(Obs::Value(a)), Obs::Value(b)) if a == b => {}
                    (Some(Obs::Value(a)), Obs::Value(b)) => {
                        fail("const-value-differs", format!("the const item evaluates to {} but the same expression computes {} at run time", a.short(), b.short()));
                        ok = false;
                    }
                    (Some(Obs::Value(a)), Obs::Panic(p)) => {
                        fail("const-accepted-but-runtime-panics", format!("the const item is accepted with value {} but the same expression panics at run time with {p:?}", a.short()));
                        ok = false;
                    }
                    _ => {
                        acc.inconclusive("const getter not comparable");
                        continue;
                    }
                }
            }
            ConstVerdict::EvalFailure(m) => {
                if let Obs::Value(b) = &twin {
                    fail("const-rejected-but-runtime-succeeds", format!("the const item is rejected ({m}) but the same expression evaluates to {} at run time", b.short()));
                    ok = false;
                }
            }
            ConstVerdict::Other(_) => {}
        }
        // Constant folding: g() with literals inline, folding on and off, must equal the twin.
        for (k, p) in progs.iter().enumerate() {
            let Some(g) = run(p, "g", vec![]) else { continue };
            let same = match (&g, &twin) {
                (Obs::Value(a), Obs::Value(b)) => a == b,
                (Obs::Panic(a), Obs::Panic(b)) => a == b,
                (Obs::OutOfGas, _) | (Obs::NotComparable(_), _) => true,
                _ => false,
            };
            if !same {
                fail(
                    if k == 0 { "folded-differs-from-runtime" } else { "unfolded-literals-differ-from-runtime" },
                    format!("the function with literals inline ({}) returns {g:?} but with opaque arguments {twin:?}", if k == 0 { "const folding on" } else { "const folding off" }),
                );
                ok = false;
            }
        }
        if ok {
            acc.nontrivial(fnv_str(&format!("{}|{}", c.ty.name, c.const_text)));
            acc.count(match twin { Obs::Panic(_) => "runtime_panics", _ => "runtime_values" }, 1);
            for f in &c.forms {
                acc.set_add("expression_forms", f);
            }
            if i == 0 && batch % 16 == 0 {
                acc.sample(json!({"const": format!("const C: {} = {};", c.ty.name, c.const_text), "verdict": format!("{:?}", verdicts[i]).chars().take(80).collect::<String>(), "runtime": format!("{twin:?}").chars().take(80).collect::<String>()}));
            }
        }
    }
}

pub fn c07_worker(ctx: &mut Ctx) {
    install_panic_hook();
    let batches: u64 = ctx.tier.pick(64, 1600);
    let size = 40;
    let seed = ctx.seed;
    let ids: Vec<u64> = (0..batches).collect();
    let results: Vec<ShardResult> = ids
        .par_iter()
        .map(|b| {
            let mut acc = ShardResult::default();
            match guarded(|| {
                let mut local = ShardResult::default();
                run_batch(&mut local, seed, *b, size);
                local
            }) {
                Ok(l) => acc.merge(l),
                Err((loc, msg)) => acc.inconclusive(&format!("harness panic: {}", panic_sig(&loc, &msg))),
            }
            acc
        })
        .collect();
    for r in results {
        ctx.absorb(r);
    }
}

pub fn c07_replay(case: &serde_json::Value) -> Result<Option<String>, String> {
    install_panic_hook();
    let mut acc = ShardResult::default();
    run_batch(&mut acc, case["seed"].as_u64().ok_or("no seed")?, case["batch"].as_u64().ok_or("no batch")?, case["size"].as_u64().unwrap_or(40) as usize);
    Ok(acc.violations.first().map(|v| format!("{}: {}", v.sig, v.desc)))
}
