//! C06: primitive integer and felt252 operations against a big-integer model (W4 operator matrix).

use std::collections::HashMap;

use cairo_lang_runner::Arg;
use num_bigint::BigInt;
use num_integer::Integer;
use num_traits::{One, Signed, Zero};
use rayon::prelude::*;
use serde_json::json;

use crate::comp::Config;
use crate::exec::{self, Outcome, Prog};
use crate::execchecks::compile_cached;
use crate::frontend::{guarded, install_panic_hook, panic_sig};
use crate::report::{Ctx, ShardResult, Tier};
use crate::rng::{Rng, fnv_str};
use crate::values::{self, Val, felt_prime, to_felt};

#[derive(Clone, Copy, Debug, PartialEq, Eq)]
pub enum TyKind {
    Unsigned,
    Signed,
    Felt,
    U256,
}

#[derive(Clone, Copy, Debug, PartialEq, Eq)]
pub struct Ty {
    pub name: &'static str,
    pub kind: TyKind,
    pub bits: u32,
}

pub const TYPES: &[Ty] = &[
    Ty { name: "u8", kind: TyKind::Unsigned, bits: 8 },
    Ty { name: "u16", kind: TyKind::Unsigned, bits: 16 },
    Ty { name: "u32", kind: TyKind::Unsigned, bits: 32 },
    Ty { name: "u64", kind: TyKind::Unsigned, bits: 64 },
    Ty { name: "u128", kind: TyKind::Unsigned, bits: 128 },
    Ty { name: "u256", kind: TyKind::U256, bits: 256 },
    Ty { name: "i8", kind: TyKind::Signed, bits: 8 },
    Ty { name: "i16", kind: TyKind::Signed, bits: 16 },
    Ty { name: "i32", kind: TyKind::Signed, bits: 32 },
    Ty { name: "i64", kind: TyKind::Signed, bits: 64 },
    Ty { name: "i128", kind: TyKind::Signed, bits: 128 },
    Ty { name: "felt252", kind: TyKind::Felt, bits: 252 },
];

impl Ty {
    pub fn min(&self) -> BigInt {
        match self.kind {
            TyKind::Signed => -(BigInt::one() << (self.bits - 1)),
            _ => BigInt::zero(),
        }
    }
    pub fn max(&self) -> BigInt {
        match self.kind {
            TyKind::Signed => (BigInt::one() << (self.bits - 1)) - 1,
            TyKind::Felt => felt_prime() - 1,
            _ => (BigInt::one() << self.bits) - 1,
        }
    }
    pub fn contains(&self, v: &BigInt) -> bool {
        *v >= self.min() && *v <= self.max()
    }
    /// Wraps into the type's range (two's complement for ints, mod P for felt).
    pub fn wrap(&self, v: &BigInt) -> BigInt {
        match self.kind {
            TyKind::Felt => v.mod_floor(&felt_prime()),
            TyKind::Signed => {
                let m = BigInt::one() << self.bits;
                let r = v.mod_floor(&m);
                if r > self.max() { r - m } else { r }
            }
            _ => v.mod_floor(&(BigInt::one() << self.bits)),
        }
    }
    pub fn by_name(n: &str) -> Option<Ty> {
        TYPES.iter().find(|t| t.name == n).copied()
    }
    /// The type twice as wide (for wide_mul).
    pub fn wide(&self) -> Option<&'static str> {
        Some(match self.name {
            "u8" => "u16",
            "u16" => "u32",
            "u32" => "u64",
            "u64" => "u128",
            "u128" => "u256",
            "i8" => "i16",
            "i16" => "i32",
            "i32" => "i64",
            "i64" => "i128",
            _ => return None,
        })
    }
    pub fn sqrt_ty(&self) -> Option<&'static str> {
        Some(match self.name {
            "u8" => "u8",
            "u16" => "u8",
            "u32" => "u16",
            "u64" => "u32",
            "u128" => "u64",
            "u256" => "u128",
            _ => return None,
        })
    }
    /// Boundary values of the type.
    pub fn boundaries(&self) -> Vec<BigInt> {
        let mut v: Vec<BigInt> = vec![self.min(), self.min() + 1, self.min() + 2, self.max(), self.max() - 1, self.max() - 2];
        for k in [-2i64, -1, 0, 1, 2, 3, 10, 100] {
            v.push(BigInt::from(k));
        }
        for k in [4u32, 7, 8, 15, 16, 31, 32, 63, 64, 127, 128, 250, 251] {
            let p = BigInt::one() << k;
            v.push(p.clone());
            v.push(&p - 1);
            v.push(&p + 1);
            v.push(-&p);
            v.push(-&p - 1);
        }
        v.retain(|x| self.contains(x));
        v.sort();
        v.dedup();
        v
    }
    /// The full boundary set of the property: every 2^k, 2^k - 1, 2^k + 1 (and their negations
    /// for signed types) that the type holds, besides `boundaries()`.
    pub fn all_powers(&self) -> Vec<BigInt> {
        let mut v = self.boundaries();
        for k in 0..=self.bits.min(256) {
            let p = BigInt::one() << k;
            for x in [p.clone(), &p - 1, &p + 1, -&p, -&p - 1, -&p + 1] {
                v.push(x);
            }
        }
        v.retain(|x| self.contains(x));
        v.sort();
        v.dedup();
        v
    }
    /// A value with structure: 2^a +- 2^b +- c (carry and limb boundaries of wide operations).
    pub fn structured(&self, rng: &mut Rng) -> BigInt {
        let bits = self.bits.min(256) as usize;
        let a = BigInt::one() << rng.below(bits + 1);
        let b = BigInt::one() << rng.below(bits + 1);
        let c = BigInt::from(rng.below(3));
        let v = match rng.below(4) {
            0 => a + b + c,
            1 => a - b - c,
            2 => a - b + c,
            _ => -a + b - c,
        };
        let span = self.max() - self.min() + 1;
        self.min() + (v - self.min()).mod_floor(&span)
    }
    pub fn random(&self, rng: &mut Rng) -> BigInt {
        let span = self.max() - self.min() + 1;
        let bits = 1 + rng.below(self.bits.min(256) as usize);
        let mut r = BigInt::zero();
        for _ in 0..bits.div_ceil(64) {
            r = (r << 64) + BigInt::from(rng.next_u64());
        }
        r %= BigInt::one() << bits;
        let v = if self.kind == TyKind::Signed && rng.bool() { -r } else { r };
        self.min() + (v - self.min()).mod_floor(&span)
    }
    pub fn args(&self, v: &BigInt) -> Vec<Arg> {
        if self.kind == TyKind::U256 {
            let m = BigInt::one() << 128;
            vec![Arg::Value(to_felt(&(v % &m))), Arg::Value(to_felt(&(v >> 128)))]
        } else {
            vec![Arg::Value(to_felt(v))]
        }
    }
    pub fn val(&self, v: &BigInt) -> Val {
        if self.kind == TyKind::U256 {
            let m = BigInt::one() << 128;
            Val::Struct(vec![Val::Scalar(to_felt(&(v % &m))), Val::Scalar(to_felt(&(v >> 128)))])
        } else {
            Val::Scalar(to_felt(v))
        }
    }
}

fn vbool(b: bool) -> Val {
    Val::Enum { idx: b as usize, val: Box::new(Val::Struct(vec![])) }
}
fn vsome(v: Val) -> Val {
    Val::Enum { idx: 0, val: Box::new(v) }
}
fn vnone() -> Val {
    Val::Enum { idx: 1, val: Box::new(Val::Struct(vec![])) }
}
fn vu512(v: &BigInt) -> Val {
    let m = BigInt::one() << 128;
    Val::Struct((0..4).map(|i| Val::Scalar(to_felt(&((v >> (128 * i)) % &m)))).collect())
}

#[derive(Debug, Clone, PartialEq)]
pub enum Expected {
    Value(Val),
    Panic,
}

pub struct OpCase {
    pub name: String,
    pub ty: Ty,
    /// Types of the parameters.
    pub params: Vec<Ty>,
    pub ret: String,
    pub body: String,
    pub model: Box<dyn Fn(&[BigInt]) -> Expected + Send + Sync>,
}

fn trunc_div(a: &BigInt, b: &BigInt) -> (BigInt, BigInt) {
    // Truncated division: quotient rounds toward zero, remainder has the sign of the dividend.
    let q = a.abs() / b.abs();
    let q = if (a.is_negative()) != (b.is_negative()) { -q } else { q };
    let r = a - &q * b;
    (q, r)
}

fn checked(t: Ty, v: BigInt) -> Expected {
    if t.contains(&v) { Expected::Value(t.val(&v)) } else { Expected::Panic }
}

/// All (type, operation) cases.
pub fn op_cases() -> Vec<OpCase> {
    let mut out = vec![];
    for &t in TYPES {
        let n = t.name;
        let is_int = matches!(t.kind, TyKind::Unsigned | TyKind::Signed | TyKind::U256);
        let mut bin = |name: &str, ret: &str, body: &str, model: Box<dyn Fn(&[BigInt]) -> Expected + Send + Sync>| {
            out.push(OpCase { name: name.to_string(), ty: t, params: vec![t, t], ret: ret.to_string(), body: body.to_string(), model });
        };
        // Checked arithmetic operators.
        bin("add", n, "a + b", Box::new(move |v| if t.kind == TyKind::Felt { Expected::Value(t.val(&t.wrap(&(&v[0] + &v[1])))) } else { checked(t, &v[0] + &v[1]) }));
        bin("sub", n, "a - b", Box::new(move |v| if t.kind == TyKind::Felt { Expected::Value(t.val(&t.wrap(&(&v[0] - &v[1])))) } else { checked(t, &v[0] - &v[1]) }));
        bin("mul", n, "a * b", Box::new(move |v| if t.kind == TyKind::Felt { Expected::Value(t.val(&t.wrap(&(&v[0] * &v[1])))) } else { checked(t, &v[0] * &v[1]) }));
        if is_int {
            bin("div", n, "a / b", Box::new(move |v| if v[1].is_zero() { Expected::Panic } else { checked(t, trunc_div(&v[0], &v[1]).0) }));
            bin("rem", n, "a % b", Box::new(move |v| {
                if v[1].is_zero() {
                    return Expected::Panic;
                }
                // i::MIN % -1 goes through the same div_rem whose quotient overflows.
                let (q, r) = trunc_div(&v[0], &v[1]);
                if !t.contains(&q) { Expected::Panic } else { Expected::Value(t.val(&r)) }
            }));
            bin("div_rem", &format!("({n}, {n})"), "core::traits::DivRem::div_rem(a, b.try_into().unwrap())", Box::new(move |v| {
                if v[1].is_zero() {
                    return Expected::Panic;
                }
                let (q, r) = trunc_div(&v[0], &v[1]);
                if !t.contains(&q) { Expected::Panic } else { Expected::Value(Val::Struct(vec![t.val(&q), t.val(&r)])) }
            }));
            bin("lt", "bool", "a < b", Box::new(|v| Expected::Value(vbool(v[0] < v[1]))));
            bin("le", "bool", "a <= b", Box::new(|v| Expected::Value(vbool(v[0] <= v[1]))));
            bin("gt", "bool", "a > b", Box::new(|v| Expected::Value(vbool(v[0] > v[1]))));
            bin("ge", "bool", "a >= b", Box::new(|v| Expected::Value(vbool(v[0] >= v[1]))));
            bin("min", n, "core::cmp::min(a, b)", Box::new(move |v| Expected::Value(t.val(std::cmp::min(&v[0], &v[1])))));
            bin("max", n, "core::cmp::max(a, b)", Box::new(move |v| Expected::Value(t.val(std::cmp::max(&v[0], &v[1])))));
            bin("overflowing_add", &format!("({n}, bool)"), "core::num::traits::OverflowingAdd::overflowing_add(a, b)", Box::new(move |v| { let r = &v[0] + &v[1]; Expected::Value(Val::Struct(vec![t.val(&t.wrap(&r)), vbool(!t.contains(&r))])) }));
            bin("overflowing_sub", &format!("({n}, bool)"), "core::num::traits::OverflowingSub::overflowing_sub(a, b)", Box::new(move |v| { let r = &v[0] - &v[1]; Expected::Value(Val::Struct(vec![t.val(&t.wrap(&r)), vbool(!t.contains(&r))])) }));
            bin("overflowing_mul", &format!("({n}, bool)"), "core::num::traits::OverflowingMul::overflowing_mul(a, b)", Box::new(move |v| { let r = &v[0] * &v[1]; Expected::Value(Val::Struct(vec![t.val(&t.wrap(&r)), vbool(!t.contains(&r))])) }));
            bin("wrapping_add", n, "core::num::traits::WrappingAdd::wrapping_add(a, b)", Box::new(move |v| Expected::Value(t.val(&t.wrap(&(&v[0] + &v[1]))))));
            bin("wrapping_sub", n, "core::num::traits::WrappingSub::wrapping_sub(a, b)", Box::new(move |v| Expected::Value(t.val(&t.wrap(&(&v[0] - &v[1]))))));
            bin("wrapping_mul", n, "core::num::traits::WrappingMul::wrapping_mul(a, b)", Box::new(move |v| Expected::Value(t.val(&t.wrap(&(&v[0] * &v[1]))))));
            let opt = move |r: BigInt| Expected::Value(if t.contains(&r) { vsome(t.val(&r)) } else { vnone() });
            bin("checked_add", &format!("Option<{n}>"), "core::num::traits::CheckedAdd::checked_add(a, b)", Box::new(move |v| opt(&v[0] + &v[1])));
            bin("checked_sub", &format!("Option<{n}>"), "core::num::traits::CheckedSub::checked_sub(a, b)", Box::new(move |v| opt(&v[0] - &v[1])));
            bin("checked_mul", &format!("Option<{n}>"), "core::num::traits::CheckedMul::checked_mul(a, b)", Box::new(move |v| opt(&v[0] * &v[1])));
            let sat = move |r: BigInt| Expected::Value(t.val(&r.clamp(t.min(), t.max())));
            bin("saturating_add", n, "core::num::traits::SaturatingAdd::saturating_add(a, b)", Box::new(move |v| sat(&v[0] + &v[1])));
            bin("saturating_sub", n, "core::num::traits::SaturatingSub::saturating_sub(a, b)", Box::new(move |v| sat(&v[0] - &v[1])));
            bin("saturating_mul", n, "core::num::traits::SaturatingMul::saturating_mul(a, b)", Box::new(move |v| sat(&v[0] * &v[1])));
        }
        bin("eq", "bool", "a == b", Box::new(|v| Expected::Value(vbool(v[0] == v[1]))));
        bin("ne", "bool", "a != b", Box::new(|v| Expected::Value(vbool(v[0] != v[1]))));
        if matches!(t.kind, TyKind::Unsigned | TyKind::U256) {
            let m: BigInt = (BigInt::one() << t.bits) - 1;
            bin("and", n, "a & b", Box::new(move |v| Expected::Value(t.val(&(&v[0] & &v[1])))));
            bin("or", n, "a | b", Box::new(move |v| Expected::Value(t.val(&(&v[0] | &v[1])))));
            bin("xor", n, "a ^ b", Box::new(move |v| Expected::Value(t.val(&(&v[0] ^ &v[1])))));
            let m2 = m.clone();
            out.push(OpCase { name: "not".into(), ty: t, params: vec![t], ret: n.into(), body: "~a".into(), model: Box::new(move |v| Expected::Value(t.val(&(&m2 - &v[0])))) });
            if let Some(st) = t.sqrt_ty() {
                let st = Ty::by_name(st).unwrap();
                out.push(OpCase { name: "sqrt".into(), ty: t, params: vec![t], ret: st.name.into(), body: "core::num::traits::Sqrt::sqrt(a)".into(), model: Box::new(move |v| Expected::Value(st.val(&v[0].sqrt()))) });
            }
        }
        if is_int {
            // Small trait surface that is easy to forget: Zero / One predicates.
            let bool_val = |b: bool| Val::Enum { idx: b as usize, val: Box::new(Val::Struct(vec![])) };
            out.push(OpCase { name: "is_zero".into(), ty: t, params: vec![t], ret: "bool".into(), body: "core::num::traits::Zero::is_zero(@a)".into(), model: Box::new(move |v| Expected::Value(bool_val(v[0].is_zero()))) });
            out.push(OpCase { name: "is_one".into(), ty: t, params: vec![t], ret: "bool".into(), body: "core::num::traits::One::is_one(@a)".into(), model: Box::new(move |v| Expected::Value(bool_val(v[0].is_one()))) });
        }
        if let Some(w) = t.wide() {
            if t.kind == TyKind::Unsigned {
                let wt = Ty::by_name(w).unwrap();
                out.push(OpCase { name: "wide_square".into(), ty: t, params: vec![t], ret: w.into(), body: "core::num::traits::WideSquare::wide_square(a)".into(), model: Box::new(move |v| Expected::Value(wt.val(&(&v[0] * &v[0])))) });
            }
        }
        if t.kind == TyKind::U256 {
            out.push(OpCase { name: "wide_square".into(), ty: t, params: vec![t], ret: "core::integer::u512".into(), body: "core::num::traits::WideSquare::wide_square(a)".into(), model: Box::new(|v| Expected::Value(vu512(&(&v[0] * &v[0])))) });
        }
        if let Some(w) = t.wide() {
            let wt = Ty::by_name(w).unwrap();
            out.push(OpCase { name: "wide_mul".into(), ty: t, params: vec![t, t], ret: w.into(), body: "core::num::traits::WideMul::wide_mul(a, b)".into(), model: Box::new(move |v| Expected::Value(wt.val(&(&v[0] * &v[1])))) });
        }
        if t.kind == TyKind::U256 {
            out.push(OpCase { name: "wide_mul".into(), ty: t, params: vec![t, t], ret: "core::integer::u512".into(), body: "core::num::traits::WideMul::wide_mul(a, b)".into(), model: Box::new(|v| Expected::Value(vu512(&(&v[0] * &v[1])))) });
            out.push(OpCase { name: "inv_mod".into(), ty: t, params: vec![t, t], ret: "Option<u256>".into(),
                body: "match core::math::u256_inv_mod(a, b.try_into().unwrap()) { Some(x) => Some(x.into()), None => None }".into(),
                model: Box::new(move |v| {
                    if v[1].is_zero() { return Expected::Panic; }
                    // Inverse of a modulo n if it exists (n == 1 has no inverse by the corelib's definition).
                    let (a, n) = (&v[0], &v[1]);
                    if n.is_one() { return Expected::Value(vnone()); }
                    let e = a.extended_gcd(n);
                    if !e.gcd.is_one() { return Expected::Value(vnone()); }
                    Expected::Value(vsome(t.val(&e.x.mod_floor(n))))
                }) });
        }
        if t.kind == TyKind::Signed || t.kind == TyKind::Felt {
            out.push(OpCase { name: "neg".into(), ty: t, params: vec![t], ret: n.into(), body: "-a".into(), model: Box::new(move |v| if t.kind == TyKind::Felt { Expected::Value(t.val(&t.wrap(&(-&v[0])))) } else { checked(t, -&v[0]) }) });
        }
        if matches!(t.kind, TyKind::Unsigned | TyKind::Signed) || t.kind == TyKind::U256 || t.kind == TyKind::Felt {
            // pow with a usize exponent.
            let u32t = Ty::by_name("u32").unwrap();
            out.push(OpCase { name: "pow".into(), ty: t, params: vec![t, u32t], ret: n.into(), body: "core::num::traits::Pow::pow(a, b)".into(),
                model: Box::new(move |v| {
                    let e = v[1].clone();
                    // Keep the model cheap: only small exponents are generated (see inputs()).
                    let e: u32 = e.try_into().unwrap_or(u32::MAX);
                    if e > 600 { return Expected::Panic; }
                    let mut r = BigInt::one();
                    for _ in 0..e {
                        r *= &v[0];
                        if t.kind == TyKind::Felt { r = t.wrap(&r); } else if !t.contains(&r) { return Expected::Panic; }
                    }
                    Expected::Value(t.val(&r))
                }) });
        }
        // Conversions to every other type.
        for &u in TYPES {
            if u.name == t.name {
                continue;
            }
            out.push(OpCase { name: format!("try_into_{}", u.name), ty: t, params: vec![t], ret: format!("Option<{}>", u.name), body: "a.try_into()".into(),
                model: Box::new(move |v| {
                    // felt252 -> signed: values above P/2 are not negative numbers, only the
                    // canonical representatives of [MIN, -1] (P + x) convert.
                    let x = if t.kind == TyKind::Felt && u.kind == TyKind::Signed && v[0] > (felt_prime() >> 1) { &v[0] - felt_prime() } else { v[0].clone() };
                    // Negative integers map to felt252 as P + x; a u256 at or above P does not fit.
                    let x = if u.kind == TyKind::Felt && t.kind == TyKind::Signed { x.mod_floor(&felt_prime()) } else { x };
                    Expected::Value(if u.contains(&x) { vsome(u.val(&x)) } else { vnone() })
                }) });
            out.push(OpCase { name: format!("into_{}", u.name), ty: t, params: vec![t], ret: u.name.into(), body: "a.into()".into(),
                model: Box::new(move |v| {
                    let x = if u.kind == TyKind::Felt { v[0].mod_floor(&felt_prime()) } else { v[0].clone() };
                    Expected::Value(u.val(&x))
                }) });
        }
        if t.name == "u128" {
            out.push(OpCase { name: "byte_reverse".into(), ty: t, params: vec![t], ret: n.into(), body: "core::integer::u128_byte_reverse(a)".into(),
                model: Box::new(move |v| {
                    let (_, bytes) = v[0].to_bytes_le();
                    let mut b = bytes;
                    b.resize(16, 0);
                    Expected::Value(t.val(&BigInt::from_bytes_be(num_bigint::Sign::Plus, &b)))
                }) });
        }
    }
    out.extend(bounded_int_cases());
    out
}

/// Interesting constant divisors / boundaries for the bounded-int family: small ones, limb
/// boundaries, and the region around 2**123..2**128 where the libfuncs switch algorithms.
fn bounded_constants() -> Vec<BigInt> {
    let b = |k: u32| BigInt::one() << k;
    vec![
        BigInt::from(1), BigInt::from(2), BigInt::from(3), BigInt::from(7), BigInt::from(10), BigInt::from(255), BigInt::from(256), BigInt::from(257),
        b(16), b(32) - 1, b(32), b(63), b(64) - 1, b(64), b(64) + 1, b(96), b(120), b(123) - 1, b(123), b(123) + 1, b(124), b(124) + 1, b(125) + 3, b(126) + 5,
        b(127), b(127) + 1, b(128) - 1,
    ]
}

/// `bounded_int_div_rem` by a constant and `bounded_int_constrain` at a constant boundary, for every
/// unsigned type (a body with a `//---` line has items before the function).
fn bounded_int_cases() -> Vec<OpCase> {
    let mut out = vec![];
    let hex = |v: &BigInt| if v.is_negative() { format!("-0x{:x}", -v) } else { format!("0x{v:x}") };
    for &t in TYPES.iter().filter(|t| matches!(t.kind, TyKind::Unsigned)) {
        for d in bounded_constants() {
            if d > t.max() {
                continue;
            }
            let qmax = t.max() / &d;
            let body = format!(
                "use core::internal::bounded_int::{{BoundedInt, DivRemHelper, UnitInt, div_rem, upcast}};\nconst D_NZ: NonZero<UnitInt<{d}>> = {d};\nimpl H of DivRemHelper<{n}, UnitInt<{d}>> {{\n    type DivT = BoundedInt<0, {qmax}>;\n    type RemT = BoundedInt<0, {rmax}>;\n}}\n//---\nlet (q, r) = div_rem::<{n}, UnitInt<{d}>, H>(a, D_NZ);\n    (upcast(q), upcast(r))",
                d = hex(&d), n = t.name, qmax = hex(&qmax), rmax = hex(&(&d - 1)),
            );
            let dd = d.clone();
            out.push(OpCase {
                name: format!("bounded_div_const_{}", hex(&d)),
                ty: t,
                params: vec![t],
                ret: "(felt252, felt252)".into(),
                body,
                model: Box::new(move |v| Expected::Value(Val::Struct(vec![Val::Scalar(to_felt(&(&v[0] / &dd))), Val::Scalar(to_felt(&(&v[0] % &dd)))]))),
            });
        }
    }
    for &t in TYPES.iter().filter(|t| matches!(t.kind, TyKind::Unsigned | TyKind::Signed)) {
        let mut bounds = bounded_constants();
        if t.kind == TyKind::Signed {
            bounds.extend(bounded_constants().into_iter().map(|b| -b));
            bounds.push(BigInt::zero());
        }
        for bnd in bounds {
            // Both sides of the boundary must be non-empty.
            if bnd <= t.min() || bnd > t.max() {
                continue;
            }
            let wide = if t.kind == TyKind::Signed { "i128" } else { "felt252" };
            let body = format!(
                "use core::internal::bounded_int::{{BoundedInt, ConstrainHelper, constrain, upcast}};\nimpl C of ConstrainHelper<{n}, {b}> {{\n    type LowT = BoundedInt<{lo}, {bm1}>;\n    type HighT = BoundedInt<{b}, {hi}>;\n}}\n//---\nmatch constrain::<{n}, {b}, C>(a) {{\n        Ok(lo) => (0, upcast::<_, {wide}>(lo)),\n        Err(hi) => (1, upcast::<_, {wide}>(hi)),\n    }}",
                n = t.name, b = hex(&bnd), lo = hex(&t.min()), bm1 = hex(&(&bnd - 1)), hi = hex(&t.max()),
            );
            let bb = bnd.clone();
            out.push(OpCase {
                name: format!("bounded_constrain_{}", hex(&bnd)),
                ty: t,
                params: vec![t],
                ret: format!("(felt252, {wide})"),
                body,
                model: Box::new(move |v| Expected::Value(Val::Struct(vec![Val::Scalar(to_felt(&BigInt::from((v[0] >= bb) as u8))), Val::Scalar(to_felt(&v[0]))]))),
            });
        }
    }
    out
}

pub fn source_of(case: &OpCase) -> String {
    let params: Vec<String> = case.params.iter().enumerate().map(|(i, t)| format!("{}: {}", ["a", "b"][i], t.name)).collect();
    // Items before the function, if any, are separated from the body by a `//---` line.
    let (prelude, body) = match case.body.split_once("\n//---\n") {
        Some((p, b)) => (format!("#[feature(\"bounded-int-utils\")]\n{}\n", p.replace("\nconst ", "\n#[feature(\"bounded-int-utils\")]\nconst ").replace("\nimpl ", "\n#[feature(\"bounded-int-utils\")]\nimpl ")), b),
        None => (String::new(), case.body.as_str()),
    };
    format!(
        "{prelude}#[feature(\"corelib-internal-use\")]\n#[feature(\"bounded-int-utils\")]\nfn op({}) -> {} {{\n    {}\n}}\n",
        params.join(", "),
        case.ret,
        body
    )
}

/// Input vectors of a case.
pub fn inputs(case: &OpCase, tier: Tier, rng: &mut Rng, exhaustive8: bool) -> (Vec<Vec<BigInt>>, bool) {
    let mut out: Vec<Vec<BigInt>> = vec![];
    let small_exp = |case: &OpCase, i: usize| case.name == "pow" && i == 1;
    if exhaustive8 && case.params.iter().all(|t| t.bits == 8) {
        let t = case.params[0];
        let lo: i64 = if t.kind == TyKind::Signed { -128 } else { 0 };
        let hi: i64 = if t.kind == TyKind::Signed { 127 } else { 255 };
        if case.params.len() == 1 {
            for a in lo..=hi {
                out.push(vec![BigInt::from(a)]);
            }
        } else {
            for a in lo..=hi {
                for b in lo..=hi {
                    out.push(vec![BigInt::from(a), BigInt::from(b)]);
                }
            }
        }
        return (out, true);
    }
    let bounds: Vec<Vec<BigInt>> = case
        .params
        .iter()
        .enumerate()
        .map(|(i, t)| if small_exp(case, i) { [0u32, 1, 2, 3, 7, 8, 15, 16, 31, 32, 63, 64, 127, 128, 255, 256].iter().map(|x| BigInt::from(*x)).collect() } else { t.boundaries() })
        .collect();
    if bounds.len() == 1 {
        let full = if small_exp(case, 0) { bounds[0].clone() } else { case.params[0].all_powers() };
        for a in &full {
            out.push(vec![a.clone()]);
        }
        // Bounded-int family: multiples of the constant (smallest and largest quotients) and the
        // neighbours of the boundary.
        if let Some(c) = case.name.strip_prefix("bounded_div_const_").or_else(|| case.name.strip_prefix("bounded_constrain_")) {
            let (neg, digits) = match c.strip_prefix("-0x") {
                Some(d) => (true, d),
                None => (false, c.trim_start_matches("0x")),
            };
            if let Some(c) = BigInt::parse_bytes(digits.as_bytes(), 16) {
                let c = if neg { -c } else { c };
                let t = case.params[0];
                let qmax = if c.is_positive() { t.max() / &c } else { BigInt::zero() };
                for k in [BigInt::from(0), BigInt::from(1), BigInt::from(2), BigInt::from(3), &qmax - 1, qmax.clone(), &qmax / 2] {
                    for dlt in [-1i32, 0, 1] {
                        let v = &k * &c + dlt;
                        if t.contains(&v) {
                            out.push(vec![v]);
                        }
                    }
                }
            }
        }
    } else {
        // Every power-of-two neighbour of each operand against a few partners (all reduced
        // boundaries in the thorough tier).
        for side in 0..2usize.min(bounds.len()) {
            if small_exp(case, side) {
                continue;
            }
            let other = 1 - side;
            for a in case.params[side].all_powers() {
                let partners: Vec<BigInt> = if tier == Tier::Thorough {
                    bounds[other].clone()
                } else {
                    let mut p = vec![a.clone(), rng.pick(&bounds[other]).clone(), rng.pick(&bounds[other]).clone()];
                    if !case.params[other].contains(&a) || small_exp(case, other) {
                        p.remove(0);
                    }
                    p
                };
                for b in partners {
                    let mut v = vec![BigInt::zero(); 2];
                    v[side] = a.clone();
                    v[other] = b;
                    out.push(v);
                }
            }
        }
        for a in &bounds[0] {
            for b in &bounds[1] {
                out.push(vec![a.clone(), b.clone()]);
            }
        }
    }
    let nrand = tier.pick(150, 10_000);
    for _ in 0..nrand {
        out.push(case.params.iter().enumerate().map(|(i, t)| if small_exp(case, i) { BigInt::from(rng.below(300)) } else if rng.chance(1, 4) { rng.pick(&t.boundaries()).clone() } else if rng.chance(1, 3) { t.structured(rng) } else { t.random(rng) }).collect());
    }
    (out, false)
}

pub fn run_case(acc: &mut ShardResult, case: &OpCase, tier: Tier, seed: u64, exhaustive8: bool) {
    let label = format!("{}::{}", case.ty.name, case.name);
    let src = source_of(case);
    let program = match compile_cached(&Config::DEFAULT, false, "test", &src) {
        Ok(p) => p,
        Err(e) => {
            if e.starts_with("PANIC") {
                acc.inconclusive(&format!("compiler panicked on an operator wrapper: {}", e.chars().take(60).collect::<String>()));
            } else {
                acc.count("op_not_available_for_type", 1);
                acc.set_add("ops_not_available", &label);
            }
            return;
        }
    };
    let prog = match guarded(|| Prog::new(program, Some(exec::metadata_config(true, Default::default())))) {
        Ok(Ok(p)) => p,
        _ => {
            acc.inconclusive("operator wrapper did not build");
            return;
        }
    };
    let Ok(func) = prog.runner.find_function("::op") else {
        acc.inconclusive("operator wrapper function not found");
        return;
    };
    let func = func.clone();
    let mut rng = Rng::derive(seed, &[6, fnv_str(&label)]);
    let (ins, exhaustive) = inputs(case, tier, &mut rng, exhaustive8);
    acc.count("ops_covered", 1);
    acc.set_add("ops_covered", &label);
    if exhaustive {
        acc.set_add("ops_exhaustive_over_8_bit_operands", &label);
    }
    for v in ins {
        acc.eval();
        let mut args = vec![];
        for (t, x) in case.params.iter().zip(v.iter()) {
            args.extend(t.args(x));
        }
        let expect = (case.model)(&v);
        let rec = exec::run(&prog, &func, args, Some(crate::execchecks::AMPLE_GAS));
        let got = match &rec.outcome {
            Outcome::Success(cells) => Expected::Value(values::decode_result(&prog.builder, &func, cells, &rec.memory)),
            Outcome::Panic(_) => Expected::Panic,
            Outcome::VmError(e) => {
                // The honest run of a primitive operation dies in the VM: the operation gives no
                // result at all on this operand (and no proof of the run exists).
                let vs: Vec<String> = v.iter().map(|x| x.to_string()).collect();
                acc.violation(
                    &format!("{label}:vm-error"),
                    &format!("{label}({}) does not complete: the VM rejects the honest run ({}) but the mathematical result is {}", vs.join(", "), e.chars().take(160).collect::<String>(), match &expect { Expected::Panic => "panic".to_string(), Expected::Value(v) => v.short() }),
                    json!({"type": case.ty.name, "op": case.name, "operands": vs}),
                );
                return;
            }
            other => {
                acc.inconclusive(&format!("run did not complete: {}", format!("{other:?}").chars().take(40).collect::<String>()));
                continue;
            }
        };
        let vs: Vec<String> = v.iter().map(|x| x.to_string()).collect();
        if got != expect {
            let operand_class = v.iter().zip(case.params.iter()).map(|(x, t)| if *x == t.min() { "MIN" } else if *x == t.max() { "MAX" } else if x.is_zero() { "0" } else if x.is_negative() { "neg" } else { "pos" }).collect::<Vec<_>>().join(",");
            acc.violation(
                &format!("{label}:{operand_class}"),
                &format!("{label}({}) = {} but the mathematical result is {}", vs.join(", "), match &got { Expected::Panic => "panic".to_string(), Expected::Value(v) => v.short() }, match &expect { Expected::Panic => "panic".to_string(), Expected::Value(v) => v.short() }),
                json!({"type": case.ty.name, "op": case.name, "operands": vs}),
            );
            return;
        }
        // Non-trivial: a distinct (op, type, operand vector).
        acc.nontrivial(fnv_str(&format!("{label}|{}", vs.join(","))));
        acc.count(if expect == Expected::Panic { "expected_panics" } else { "expected_values" }, 1);
    }
}

pub fn c06_worker(ctx: &mut Ctx) {
    install_panic_hook();
    let cases = op_cases();
    ctx.count("op_cases_defined", cases.len() as u64);
    let tier = ctx.tier;
    let seed = ctx.seed;
    let results: Vec<ShardResult> = cases
        .par_iter()
        .map(|case| {
            let mut acc = ShardResult::default();
            // Quick: exhaustive 8-bit for + - * only; thorough: for every op with 8-bit operands.
            let ex = case.params.iter().all(|t| t.bits == 8) && (tier == Tier::Thorough || matches!(case.name.as_str(), "add" | "sub" | "mul"));
            match guarded(|| {
                let mut local = ShardResult::default();
                run_case(&mut local, case, tier, seed, ex);
                local
            }) {
                Ok(local) => acc.merge(local),
                Err((loc, msg)) => acc.inconclusive(&format!("harness panic: {}", panic_sig(&loc, &msg))),
            }
            acc
        })
        .collect();
    for r in results {
        ctx.absorb(r);
    }
    ctx.sample(json!({"case": "u8::add", "source": source_of(&cases[0]), "inputs": "all 65536 pairs", "model": "a + b if <= 255 else panic"}));
}

pub fn c06_replay(case: &serde_json::Value) -> Result<Option<String>, String> {
    install_panic_hook();
    let ty = case["type"].as_str().ok_or("no type")?;
    let op = case["op"].as_str().ok_or("no op")?;
    let cases = op_cases();
    let c = cases.iter().find(|c| c.ty.name == ty && c.name == op).ok_or("case not found")?;
    let operands: Vec<BigInt> = case["operands"].as_array().ok_or("no operands")?.iter().map(|x| x.as_str().unwrap_or("0").parse().unwrap()).collect();
    let src = source_of(c);
    let program = compile_cached(&Config::DEFAULT, false, "test", &src)?;
    let prog = Prog::new(program, Some(exec::metadata_config(true, Default::default())))?;
    let func = prog.runner.find_function("::op").map_err(|e| e.to_string())?.clone();
    let mut args = vec![];
    for (t, x) in c.params.iter().zip(operands.iter()) {
        args.extend(t.args(x));
    }
    let rec = exec::run(&prog, &func, args, Some(crate::execchecks::AMPLE_GAS));
    let got = match &rec.outcome {
        Outcome::Success(cells) => Expected::Value(values::decode_result(&prog.builder, &func, cells, &rec.memory)),
        Outcome::Panic(_) => Expected::Panic,
        other => return Err(format!("run did not complete: {other:?}")),
    };
    let expect = (c.model)(&operands);
    Ok((got != expect).then(|| format!("{ty}::{op}({operands:?}) = {got:?}, expected {expect:?}")))
}

#[allow(dead_code)]
fn _unused(_: HashMap<u8, u8>) {}
