//! W5 for Sierra: program-level and felt-level mutants, the totality monitor of the untrusted
//! pipeline (C14) and the independent typing/linearity checker (C15).

use std::collections::{BTreeMap, HashMap, HashSet};

use cairo_lang_sierra::extensions::core::{CoreLibfunc, CoreType};
use cairo_lang_sierra::extensions::lib_func::SierraApChange;
use cairo_lang_sierra::extensions::{ConcreteLibfunc, ConcreteType};
use cairo_lang_sierra::ids::{ConcreteLibfuncId, ConcreteTypeId, FunctionId, VarId};
use cairo_lang_sierra::program::{
    BranchInfo, BranchTarget, DeclaredTypeInfo, GenericArg, Invocation, Program, Statement,
    StatementIdx,
};
use cairo_lang_sierra::program_registry::ProgramRegistry;
use cairo_lang_sierra::ProgramParser;
use cairo_lang_sierra_to_casm::compiler::{SierraToCasmConfig, compile};
use cairo_lang_sierra_to_casm::metadata::{MetadataComputationConfig, calc_metadata};
use cairo_lang_sierra_type_size::ProgramRegistryInfo;
use cairo_lang_starknet_classes::casm_contract_class::CasmContractClass;
use cairo_lang_starknet_classes::contract_class::ContractClass;
use cairo_lang_utils::bigint::BigUintAsHex;
use num_bigint::{BigInt, BigUint};
use serde_json::json;

use crate::frontend::{guarded, install_panic_hook, panic_sig};
use crate::report::Ctx;
use crate::rng::{Rng, fnv_str};

// ---------------------------------------------------------------------------------------------
// Corpus.

pub struct SierraCorpus {
    pub programs: Vec<(String, Program)>,
    pub classes: Vec<(String, ContractClass)>,
}

pub fn load_corpus(max_statements: usize) -> SierraCorpus {
    let mut programs = vec![];
    let parser = ProgramParser::new();
    for (name, text) in crate::corpus::all_sierra_texts() {
        if let Ok(Ok(p)) = guarded(|| parser.parse(&text)) {
            if p.statements.len() <= max_statements && !p.statements.is_empty() {
                programs.push((name, p));
            }
        }
    }
    let mut classes = vec![];
    for f in crate::corpus::all_files() {
        let n = f.to_string_lossy().to_string();
        if n.ends_with(".contract_class.json") && !n.contains("compiled_contract_class") {
            if let Ok(text) = std::fs::read_to_string(&f) {
                if let Ok(c) = serde_json::from_str::<ContractClass>(&text) {
                    classes.push((crate::corpus::rel(&f), c));
                }
            }
        }
    }
    SierraCorpus { programs, classes }
}

// ---------------------------------------------------------------------------------------------
// Program mutation.

struct Pools {
    types: Vec<ConcreteTypeId>,
    libfuncs: Vec<ConcreteLibfuncId>,
    vars: Vec<VarId>,
    funcs: Vec<FunctionId>,
}

fn pools(p: &Program) -> Pools {
    let mut vars: Vec<VarId> = vec![];
    let mut seen = HashSet::new();
    let mut add = |v: &VarId| {
        if seen.insert(v.id) {
            vars.push(v.clone());
        }
    };
    for f in &p.funcs {
        for prm in &f.params {
            add(&prm.id);
        }
    }
    for s in &p.statements {
        match s {
            Statement::Invocation(i) => {
                i.args.iter().for_each(&mut add);
                for b in &i.branches {
                    b.results.iter().for_each(&mut add);
                }
            }
            Statement::Return(v) => v.iter().for_each(&mut add),
        }
    }
    Pools {
        types: p.type_declarations.iter().map(|t| t.id.clone()).collect(),
        libfuncs: p.libfunc_declarations.iter().map(|t| t.id.clone()).collect(),
        vars,
        funcs: p.funcs.iter().map(|f| f.id.clone()).collect(),
    }
}

fn extreme_value(rng: &mut Rng) -> BigInt {
    match rng.below(12) {
        0 => BigInt::from(0),
        1 => BigInt::from(1),
        2 => BigInt::from(-1),
        3 => BigInt::from(2),
        4 => BigInt::from(u64::MAX),
        5 => BigInt::from(1) << 128,
        6 => (BigInt::from(1) << 128) - 1,
        7 => -(BigInt::from(1) << 127usize),
        8 => (BigInt::from(1) << 251) + (BigInt::from(17) << 192),
        9 => BigInt::from(1) << 300,
        10 => -(BigInt::from(1) << 300usize),
        _ => BigInt::from(rng.next_u64() as i64),
    }
}

fn mutate_generic_args(args: &mut Vec<GenericArg>, pools: &Pools, rng: &mut Rng) {
    match rng.below(6) {
        0 => {
            if !args.is_empty() {
                let i = rng.below(args.len());
                args.remove(i);
            }
        }
        1 => {
            let a = random_generic_arg(pools, rng);
            let i = rng.below(args.len() + 1);
            args.insert(i, a);
        }
        2 | 3 => {
            if !args.is_empty() {
                let i = rng.below(args.len());
                args[i] = match &args[i] {
                    GenericArg::Value(_) => GenericArg::Value(extreme_value(rng)),
                    GenericArg::Type(_) if !pools.types.is_empty() => {
                        GenericArg::Type(rng.pick(&pools.types).clone())
                    }
                    GenericArg::UserFunc(_) if !pools.funcs.is_empty() => {
                        GenericArg::UserFunc(rng.pick(&pools.funcs).clone())
                    }
                    GenericArg::Libfunc(_) if !pools.libfuncs.is_empty() => {
                        GenericArg::Libfunc(rng.pick(&pools.libfuncs).clone())
                    }
                    other => other.clone(),
                };
            }
        }
        4 => {
            if !args.is_empty() {
                let i = rng.below(args.len());
                args[i] = random_generic_arg(pools, rng);
            }
        }
        _ => {
            if args.len() >= 2 {
                let i = rng.below(args.len() - 1);
                args.swap(i, i + 1);
            }
        }
    }
}

fn random_generic_arg(pools: &Pools, rng: &mut Rng) -> GenericArg {
    match rng.below(4) {
        0 if !pools.types.is_empty() => GenericArg::Type(rng.pick(&pools.types).clone()),
        1 if !pools.funcs.is_empty() => GenericArg::UserFunc(rng.pick(&pools.funcs).clone()),
        2 if !pools.libfuncs.is_empty() => GenericArg::Libfunc(rng.pick(&pools.libfuncs).clone()),
        _ => GenericArg::Value(extreme_value(rng)),
    }
}

pub const MUTATION_KINDS: &[&str] = &[
    "stmt-delete",
    "stmt-swap",
    "stmt-duplicate",
    "libfunc-subst",
    "arg-subst",
    "result-subst",
    "branch-retarget",
    "type-generic-args",
    "libfunc-generic-args",
    "type-generic-id",
    "libfunc-generic-id",
    "entry-point-move",
    "signature-edit",
    "decl-reorder",
    "declared-type-info",
    "return-edit",
    "arg-drop-or-dup",
    "branch-drop-or-dup",
];

/// Applies one random single-point mutation in place; returns its kind.
pub fn mutate_once(p: &mut Program, rng: &mut Rng) -> &'static str {
    let pl = pools(p);
    let n = p.statements.len();
    let kind = rng.below(MUTATION_KINDS.len());
    match kind {
        0 if n > 1 => {
            let i = rng.below(n);
            p.statements.remove(i);
        }
        1 if n > 1 => {
            let i = rng.below(n - 1);
            p.statements.swap(i, i + 1);
        }
        2 if n > 0 => {
            let i = rng.below(n);
            let s = p.statements[i].clone();
            p.statements.insert(i, s);
        }
        3 if n > 0 && !pl.libfuncs.is_empty() => {
            let i = rng.below(n);
            if let Statement::Invocation(inv) = &mut p.statements[i] {
                inv.libfunc_id = rng.pick(&pl.libfuncs).clone();
            }
        }
        4 if n > 0 && !pl.vars.is_empty() => {
            let i = rng.below(n);
            match &mut p.statements[i] {
                Statement::Invocation(inv) if !inv.args.is_empty() => {
                    let j = rng.below(inv.args.len());
                    inv.args[j] = rng.pick(&pl.vars).clone();
                }
                Statement::Return(v) if !v.is_empty() => {
                    let j = rng.below(v.len());
                    v[j] = rng.pick(&pl.vars).clone();
                }
                _ => {}
            }
        }
        5 if n > 0 && !pl.vars.is_empty() => {
            let i = rng.below(n);
            if let Statement::Invocation(inv) = &mut p.statements[i] {
                if !inv.branches.is_empty() {
                    let b = rng.below(inv.branches.len());
                    if !inv.branches[b].results.is_empty() {
                        let j = rng.below(inv.branches[b].results.len());
                        inv.branches[b].results[j] = if rng.bool() {
                            rng.pick(&pl.vars).clone()
                        } else {
                            VarId::new(rng.below(1 << 20) as u64)
                        };
                    }
                }
            }
        }
        6 if n > 0 => {
            let i = rng.below(n);
            if let Statement::Invocation(inv) = &mut p.statements[i] {
                if !inv.branches.is_empty() {
                    let b = rng.below(inv.branches.len());
                    inv.branches[b].target = match rng.below(5) {
                        0 => BranchTarget::Fallthrough,
                        1 => BranchTarget::Statement(StatementIdx(n + rng.below(3))),
                        2 => BranchTarget::Statement(StatementIdx(usize::MAX - rng.below(2))),
                        3 => BranchTarget::Statement(StatementIdx(i)),
                        _ => BranchTarget::Statement(StatementIdx(rng.below(n))),
                    };
                }
            }
        }
        7 if !p.type_declarations.is_empty() => {
            let i = rng.below(p.type_declarations.len());
            mutate_generic_args(&mut p.type_declarations[i].long_id.generic_args, &pl, rng);
        }
        8 if !p.libfunc_declarations.is_empty() => {
            let i = rng.below(p.libfunc_declarations.len());
            mutate_generic_args(&mut p.libfunc_declarations[i].long_id.generic_args, &pl, rng);
        }
        9 if p.type_declarations.len() > 1 => {
            let i = rng.below(p.type_declarations.len());
            let j = rng.below(p.type_declarations.len());
            p.type_declarations[i].long_id.generic_id = p.type_declarations[j].long_id.generic_id.clone();
        }
        10 if p.libfunc_declarations.len() > 1 => {
            let i = rng.below(p.libfunc_declarations.len());
            let j = rng.below(p.libfunc_declarations.len());
            p.libfunc_declarations[i].long_id.generic_id =
                p.libfunc_declarations[j].long_id.generic_id.clone();
        }
        11 if !p.funcs.is_empty() => {
            let i = rng.below(p.funcs.len());
            p.funcs[i].entry_point = match rng.below(4) {
                0 => StatementIdx(n),
                1 => StatementIdx(usize::MAX),
                _ => StatementIdx(rng.below(n.max(1))),
            };
        }
        12 if !p.funcs.is_empty() && !pl.types.is_empty() => {
            let i = rng.below(p.funcs.len());
            let f = &mut p.funcs[i];
            match rng.below(6) {
                0 if !f.signature.ret_types.is_empty() => {
                    let j = rng.below(f.signature.ret_types.len());
                    f.signature.ret_types.remove(j);
                }
                1 => f.signature.ret_types.push(rng.pick(&pl.types).clone()),
                2 if !f.signature.ret_types.is_empty() => {
                    let j = rng.below(f.signature.ret_types.len());
                    f.signature.ret_types[j] = rng.pick(&pl.types).clone();
                }
                3 if !f.params.is_empty() => {
                    let j = rng.below(f.params.len());
                    let t = rng.pick(&pl.types).clone();
                    f.params[j].ty = t.clone();
                    if rng.bool() && j < f.signature.param_types.len() {
                        f.signature.param_types[j] = t;
                    }
                }
                4 if !f.params.is_empty() => {
                    let j = rng.below(f.params.len());
                    f.params.remove(j);
                    if rng.bool() && j < f.signature.param_types.len() {
                        f.signature.param_types.remove(j);
                    }
                }
                _ if !f.params.is_empty() && !pl.vars.is_empty() => {
                    let j = rng.below(f.params.len());
                    f.params[j].id = rng.pick(&pl.vars).clone();
                }
                _ => {}
            }
        }
        13 => {
            if p.type_declarations.len() > 1 && rng.bool() {
                let i = rng.below(p.type_declarations.len() - 1);
                let j = rng.below(p.type_declarations.len());
                p.type_declarations.swap(i, j);
            } else if p.libfunc_declarations.len() > 1 {
                let i = rng.below(p.libfunc_declarations.len() - 1);
                let j = rng.below(p.libfunc_declarations.len());
                p.libfunc_declarations.swap(i, j);
            }
        }
        14 if !p.type_declarations.is_empty() => {
            let i = rng.below(p.type_declarations.len());
            let t = &mut p.type_declarations[i];
            let mut info = t.declared_type_info.clone().unwrap_or(DeclaredTypeInfo {
                storable: rng.bool(),
                droppable: rng.bool(),
                duplicatable: rng.bool(),
                zero_sized: rng.bool(),
            });
            match rng.below(5) {
                0 => info.storable = !info.storable,
                1 => info.droppable = !info.droppable,
                2 => info.duplicatable = !info.duplicatable,
                3 => info.zero_sized = !info.zero_sized,
                _ => {}
            }
            t.declared_type_info = if rng.chance(1, 6) { None } else { Some(info) };
        }
        15 if n > 0 => {
            // Turn a statement into a return of some of the variables / edit a return.
            let i = rng.below(n);
            match &mut p.statements[i] {
                Statement::Return(v) => {
                    if !v.is_empty() && rng.bool() {
                        let j = rng.below(v.len());
                        v.remove(j);
                    } else if !pl.vars.is_empty() {
                        v.push(rng.pick(&pl.vars).clone());
                    }
                }
                s => {
                    let k = rng.below(3);
                    *s = Statement::Return(
                        (0..k).filter_map(|_| (!pl.vars.is_empty()).then(|| rng.pick(&pl.vars).clone())).collect(),
                    );
                }
            }
        }
        16 if n > 0 => {
            let i = rng.below(n);
            if let Statement::Invocation(inv) = &mut p.statements[i] {
                if !inv.args.is_empty() && rng.bool() {
                    let j = rng.below(inv.args.len());
                    inv.args.remove(j);
                } else if !pl.vars.is_empty() {
                    let v = if !inv.args.is_empty() && rng.bool() {
                        inv.args[rng.below(inv.args.len())].clone()
                    } else {
                        rng.pick(&pl.vars).clone()
                    };
                    inv.args.push(v);
                }
            }
        }
        17 if n > 0 => {
            let i = rng.below(n);
            if let Statement::Invocation(inv) = &mut p.statements[i] {
                if !inv.branches.is_empty() && rng.bool() {
                    let j = rng.below(inv.branches.len());
                    inv.branches.remove(j);
                } else {
                    let b = inv.branches.first().cloned().unwrap_or(BranchInfo {
                        target: BranchTarget::Fallthrough,
                        results: vec![],
                    });
                    inv.branches.push(b);
                }
            }
        }
        _ => return "noop",
    }
    MUTATION_KINDS[kind]
}

// ---------------------------------------------------------------------------------------------
// The pipeline under monitoring.

#[derive(Debug, Clone, PartialEq, Eq)]
pub enum Stage {
    RejectedRegistry,
    RejectedMetadata,
    RejectedCompile,
    Accepted,
}

pub struct PipelineResult {
    pub linear: Stage,
    pub legacy: Option<Stage>,
}

/// Solver modes: 0 = linear (default), 1 = legacy equation solvers without cross-comparison (as
/// the repo's tests use them), 2 = legacy with comparison against the linear result (what
/// `CasmContractClass::from_contract_class` configures for Sierra versions below 1.4.0).
fn meta_cfg(mode: u8) -> MetadataComputationConfig {
    MetadataComputationConfig {
        function_set_costs: Default::default(),
        linear_gas_solver: mode == 0,
        linear_ap_change_solver: mode == 0,
        skip_non_linear_solver_comparisons: mode == 1,
        compute_runtime_costs: false,
    }
}

/// Runs registry -> metadata -> compile. Panics propagate to the caller's `guarded`.
pub fn pipeline(p: &Program, mode: u8) -> (Stage, Option<ProgramRegistryInfo>) {
    let info = match ProgramRegistryInfo::new(p) {
        Ok(i) => i,
        Err(_) => return (Stage::RejectedRegistry, None),
    };
    let meta = match calc_metadata(p, &info, meta_cfg(mode)) {
        Ok(m) => m,
        Err(_) => return (Stage::RejectedMetadata, Some(info)),
    };
    match compile(p, &info, &meta, SierraToCasmConfig { gas_usage_check: true, max_bytecode_size: usize::MAX }) {
        Ok(_) => (Stage::Accepted, Some(info)),
        Err(_) => (Stage::RejectedCompile, Some(info)),
    }
}


// ---------------------------------------------------------------------------------------------
// C15: independent checker.

pub type TypeMap = BTreeMap<u64, ConcreteTypeId>;

#[derive(Debug)]
pub struct CheckError {
    pub class: String,
    pub detail: String,
}

fn cerr<T>(class: &str, detail: String) -> Result<T, CheckError> {
    Err(CheckError { class: class.to_string(), detail })
}

/// My own table of copy/drop rules for the simple core generic types. Returns
/// (droppable, duplicatable) or None if the rule is not in the table.
fn expected_flags(
    registry: &ProgramRegistry<CoreType, CoreLibfunc>,
    ty: &ConcreteTypeId,
    depth: usize,
) -> Option<(bool, bool)> {
    if depth > 30 {
        return None;
    }
    let t = registry.get_type(ty).ok()?;
    let long = &t.info().long_id;
    let type_args: Vec<&ConcreteTypeId> = long
        .generic_args
        .iter()
        .filter_map(|a| if let GenericArg::Type(t) = a { Some(t) } else { None })
        .collect();
    Some(match long.generic_id.0.as_str() {
        "felt252" | "u8" | "u16" | "u32" | "u64" | "u128" | "i8" | "i16" | "i32" | "i64" | "i128"
        | "bytes31" | "BoundedInt" | "ContractAddress" | "ClassHash" | "StorageAddress"
        | "StorageBaseAddress" | "EcPoint" | "BuiltinCosts" | "qm31" => (true, true),
        "RangeCheck" | "RangeCheck96" | "Bitwise" | "Pedersen" | "Poseidon" | "EcOp" | "AddMod"
        | "MulMod" | "SegmentArena" | "System" | "GasBuiltin" | "Felt252Dict" | "Felt252DictEntry" => {
            (false, false)
        }
        "Array" => (expected_flags(registry, type_args.first()?, depth + 1)?.0, false),
        "Snapshot" => (true, true),
        "Uninitialized" => (true, false),
        "NonZero" => expected_flags(registry, type_args.first()?, depth + 1)?,
        "Box" | "Nullable" => expected_flags(registry, type_args.first()?, depth + 1)?,
        "Struct" | "Enum" => {
            let mut d = true;
            let mut c = true;
            for a in type_args {
                let (ad, ac) = expected_flags(registry, a, depth + 1)?;
                d &= ad;
                c &= ac;
            }
            (d, c)
        }
        _ => return None,
    })
}

#[derive(Default)]
pub struct CheckStats {
    pub statements_visited: usize,
    pub merges_checked: usize,
    pub dup_checked: usize,
    pub drop_checked: usize,
    pub flags_cross_checked: usize,
    pub unreachable_statements: usize,
}

/// Independent forward data-flow check of typing and exact-once use.
pub fn independent_check(p: &Program, info: &ProgramRegistryInfo, stats: &mut CheckStats) -> Result<(), CheckError> {
    independent_check_states(p, info, stats).map(|_| ())
}

/// As [independent_check], also returning the variable -> type map in front of every statement.
pub fn independent_check_states(p: &Program, info: &ProgramRegistryInfo, stats: &mut CheckStats) -> Result<Vec<Option<TypeMap>>, CheckError> {
    let registry = &info.registry;
    let n = p.statements.len();
    let mut owner: Vec<Option<usize>> = vec![None; n];
    let mut states: Vec<Option<TypeMap>> = vec![None; n];
    for (fi, f) in p.funcs.iter().enumerate() {
        if f.params.len() != f.signature.param_types.len() {
            return cerr("signature", format!("function {}: params/param_types length differ", f.id));
        }
        let mut st = TypeMap::new();
        for (prm, ty) in f.params.iter().zip(f.signature.param_types.iter()) {
            if &prm.ty != ty {
                return cerr("signature", format!("function {}: param type differs from signature", f.id));
            }
            if st.insert(prm.id.id, prm.ty.clone()).is_some() {
                return cerr("linearity", format!("function {}: parameter variable declared twice", f.id));
            }
        }
        if f.entry_point.0 >= n {
            return cerr("bounds", format!("function {}: entry point out of range", f.id));
        }
        let mut work: Vec<(usize, TypeMap)> = vec![(f.entry_point.0, st)];
        while let Some((idx, st)) = work.pop() {
            if idx >= n {
                return cerr("bounds", format!("control flow reaches statement {idx} past the end"));
            }
            match owner[idx] {
                Some(o) if o != fi => {
                    return cerr("ownership", format!("statement {idx} belongs to two functions"));
                }
                _ => owner[idx] = Some(fi),
            }
            if let Some(prev) = &states[idx] {
                stats.merges_checked += 1;
                if prev != &st {
                    return cerr(
                        "merge",
                        format!(
                            "paths merging at statement {idx} disagree on live variables/types: {:?} vs {:?}",
                            prev.iter().map(|(k, v)| format!("{k}:{v}")).collect::<Vec<_>>(),
                            st.iter().map(|(k, v)| format!("{k}:{v}")).collect::<Vec<_>>()
                        ),
                    );
                }
                continue;
            }
            states[idx] = Some(st.clone());
            stats.statements_visited += 1;
            match &p.statements[idx] {
                Statement::Return(vars) => {
                    let mut st = st;
                    if vars.len() != f.signature.ret_types.len() {
                        return cerr("return", format!("statement {idx}: returns {} values, signature has {}", vars.len(), f.signature.ret_types.len()));
                    }
                    for (v, ty) in vars.iter().zip(f.signature.ret_types.iter()) {
                        match st.remove(&v.id) {
                            Some(t) if &t == ty => {}
                            Some(t) => return cerr("return", format!("statement {idx}: returns {v} of type {t}, expected {ty}")),
                            None => return cerr("linearity", format!("statement {idx}: returned variable {v} not live (used twice or undefined)")),
                        }
                    }
                    if !st.is_empty() {
                        return cerr("linearity", format!("statement {idx}: return leaves variables {:?} dangling", st.keys().collect::<Vec<_>>()));
                    }
                }
                Statement::Invocation(Invocation { libfunc_id, args, branches }) => {
                    let Ok(lf) = registry.get_libfunc(libfunc_id) else {
                        return cerr("undeclared", format!("statement {idx}: libfunc {libfunc_id} not declared"));
                    };
                    let params = lf.param_signatures();
                    if params.len() != args.len() {
                        return cerr("arity", format!("statement {idx}: {} args for {} params", args.len(), params.len()));
                    }
                    let mut st = st;
                    for (a, ps) in args.iter().zip(params.iter()) {
                        match st.remove(&a.id) {
                            Some(t) if t == ps.ty => {}
                            Some(t) => return cerr("type", format!("statement {idx}: argument {a} has type {t}, libfunc {libfunc_id} expects {}", ps.ty)),
                            None => return cerr("linearity", format!("statement {idx}: argument {a} not live (used twice or undefined)")),
                        }
                    }
                    let generic = p
                        .libfunc_declarations
                        .iter()
                        .find(|d| &d.id == libfunc_id)
                        .map(|d| d.long_id.generic_id.0.to_string())
                        .unwrap_or_default();
                    if generic == "dup" || generic == "drop" {
                        let ty = &params[0].ty;
                        let Ok(tinfo) = registry.get_type(ty) else {
                            return cerr("undeclared", format!("type {ty} not declared"));
                        };
                        let ti = tinfo.info();
                        if generic == "dup" {
                            stats.dup_checked += 1;
                            if !ti.duplicatable {
                                return cerr("dup", format!("statement {idx}: dup of non-duplicatable {ty}"));
                            }
                        } else {
                            stats.drop_checked += 1;
                            if !ti.droppable {
                                return cerr("drop", format!("statement {idx}: drop of non-droppable {ty}"));
                            }
                        }
                        if let Some((d, c)) = expected_flags(registry, ty, 0) {
                            stats.flags_cross_checked += 1;
                            if generic == "dup" && !c {
                                return cerr("dup-table", format!("statement {idx}: {ty} is duplicated but is not copyable by the type rules"));
                            }
                            if generic == "drop" && !d {
                                return cerr("drop-table", format!("statement {idx}: {ty} is dropped but is not droppable by the type rules"));
                            }
                        }
                    }
                    let bsigs = lf.branch_signatures();
                    if bsigs.len() != branches.len() {
                        return cerr("arity", format!("statement {idx}: {} branches for {} in signature", branches.len(), bsigs.len()));
                    }
                    for (b, sig) in branches.iter().zip(bsigs.iter()) {
                        if b.results.len() != sig.vars.len() {
                            return cerr("arity", format!("statement {idx}: branch has {} results, signature {}", b.results.len(), sig.vars.len()));
                        }
                        let mut bst = st.clone();
                        for (r, v) in b.results.iter().zip(sig.vars.iter()) {
                            if bst.insert(r.id, v.ty.clone()).is_some() {
                                return cerr("linearity", format!("statement {idx}: result {r} overrides a live variable"));
                            }
                        }
                        let target = match b.target {
                            BranchTarget::Fallthrough => idx + 1,
                            BranchTarget::Statement(s) => s.0,
                        };
                        if target >= n {
                            return cerr("bounds", format!("statement {idx}: branch target {target} out of range"));
                        }
                        if branches.len() > 1 {
                            let aligned = match &p.statements[target] {
                                Statement::Invocation(ti) => registry
                                    .get_libfunc(&ti.libfunc_id)
                                    .ok()
                                    .map(|l| {
                                        l.branch_signatures().len() == 1
                                            && matches!(l.branch_signatures()[0].ap_change, SierraApChange::BranchAlign)
                                    })
                                    .unwrap_or(false),
                                _ => false,
                            };
                            if !aligned {
                                return cerr("branch-align", format!("statement {idx}: branch of multi-branch {libfunc_id} lands on statement {target}, not a branch_align"));
                            }
                        }
                        work.push((target, bst));
                    }
                }
            }
        }
    }
    stats.unreachable_statements += states.iter().filter(|s| s.is_none()).count();
    Ok(states)
}

/// Inserts `stmt` in front of statement `idx`. Jumps to `idx` land on the inserted statement if
/// `on_all_paths`, otherwise they skip it (it then sits on the fall-through path only).
pub fn insert_statement(p: &mut Program, idx: usize, stmt: Statement, on_all_paths: bool) {
    let shift = |t: &mut StatementIdx| {
        if t.0 > idx || (t.0 == idx && !on_all_paths) {
            t.0 += 1;
        }
    };
    for s in p.statements.iter_mut() {
        if let Statement::Invocation(inv) = s {
            for b in inv.branches.iter_mut() {
                if let BranchTarget::Statement(t) = &mut b.target {
                    shift(t);
                }
            }
        }
    }
    for f in p.funcs.iter_mut() {
        if f.entry_point.0 > idx || (f.entry_point.0 == idx && !on_all_paths) {
            f.entry_point.0 += 1;
        }
    }
    p.statements.insert(idx, stmt);
}

/// Finds (or declares) the libfunc `generic<ty>`.
fn libfunc_for_type(p: &mut Program, generic: &str, ty: &ConcreteTypeId) -> ConcreteLibfuncId {
    if let Some(d) = p.libfunc_declarations.iter().find(|d| d.long_id.generic_id.0 == generic && d.long_id.generic_args == vec![GenericArg::Type(ty.clone())]) {
        return d.id.clone();
    }
    let id = ConcreteLibfuncId::from_string(format!("{generic}<{ty}>"));
    p.libfunc_declarations.push(cairo_lang_sierra::program::LibfuncDeclaration {
        id: id.clone(),
        long_id: cairo_lang_sierra::program::ConcreteLibfuncLongId { generic_id: generic.into(), generic_args: vec![GenericArg::Type(ty.clone())] },
    });
    id
}

pub const TYPED_MUTATION_KINDS: &[&str] = &["typed-insert-drop", "typed-insert-dup", "typed-insert-store-temp-rename", "typed-swap-same-type-args"];

/// Type-aware mutations: they keep every statement well-typed and break only linearity / merge
/// agreement - the checks C15 is about. Needs the live-variable types of the (valid) base program.
pub fn mutate_typed(p: &mut Program, states: &[Option<TypeMap>], rng: &mut Rng) -> &'static str {
    let cands: Vec<usize> = states.iter().enumerate().filter(|(_, s)| s.as_ref().is_some_and(|m| !m.is_empty())).map(|(i, _)| i).collect();
    if cands.is_empty() {
        return "noop";
    }
    let idx = *rng.pick(&cands);
    let st = states[idx].as_ref().unwrap();
    let vars: Vec<(&u64, &ConcreteTypeId)> = st.iter().collect();
    let (var, ty) = *rng.pick(&vars);
    let (var, ty) = (VarId::new(*var), ty.clone());
    let on_all = rng.bool();
    let fresh = VarId::new(1_000_000 + rng.below(1000) as u64);
    match rng.below(4) {
        0 => {
            let lf = libfunc_for_type(p, "drop", &ty);
            insert_statement(p, idx, Statement::Invocation(Invocation { libfunc_id: lf, args: vec![var], branches: vec![BranchInfo { target: BranchTarget::Fallthrough, results: vec![] }] }), on_all);
            "typed-insert-drop"
        }
        1 => {
            let lf = libfunc_for_type(p, "dup", &ty);
            insert_statement(p, idx, Statement::Invocation(Invocation { libfunc_id: lf, args: vec![var.clone()], branches: vec![BranchInfo { target: BranchTarget::Fallthrough, results: vec![var, fresh] }] }), on_all);
            "typed-insert-dup"
        }
        2 => {
            // `store_temp<T>([x]) -> ([fresh])`: x disappears, a new variable appears.
            let lf = libfunc_for_type(p, "store_temp", &ty);
            insert_statement(p, idx, Statement::Invocation(Invocation { libfunc_id: lf, args: vec![var], branches: vec![BranchInfo { target: BranchTarget::Fallthrough, results: vec![fresh] }] }), on_all);
            "typed-insert-store-temp-rename"
        }
        _ => {
            // Use one variable twice where two variables of the same type are expected.
            let same: Vec<u64> = st.iter().filter(|(k, t)| **t == ty && **k != var.id).map(|(k, _)| *k).collect();
            if let (Some(other), Some(Statement::Invocation(inv))) = ((!same.is_empty()).then(|| *rng.pick(&same)), p.statements.get_mut(idx)) {
                for a in inv.args.iter_mut() {
                    if a.id == other {
                        *a = var.clone();
                    }
                }
            }
            "typed-swap-same-type-args"
        }
    }
}

// ---------------------------------------------------------------------------------------------
// Workers.

fn set_memory_limit(bytes: u64) {
    unsafe {
        let lim = libc::rlimit { rlim_cur: bytes, rlim_max: bytes };
        libc::setrlimit(libc::RLIMIT_AS, &lim);
    }
}

fn program_case_desc(base: &str, seed: u64, idx: u64) -> String {
    format!("{{\"base\":{base:?},\"seed\":{seed},\"idx\":{idx}}}")
}

/// Deterministically rebuilds mutant `idx`.
pub fn build_mutant(corpus: &SierraCorpus, seed: u64, idx: u64) -> (usize, Vec<&'static str>, Program) {
    let mut rng = Rng::derive(seed, &[14, idx]);
    let bi = rng.below(corpus.programs.len());
    let mut p = corpus.programs[bi].1.clone();
    if idx % 3 == 2 {
        // Type-aware mutation of a program the independent checker understands.
        let typed = guarded(|| {
            let info = ProgramRegistryInfo::new(&p).ok()?;
            let mut st = CheckStats::default();
            independent_check_states(&p, &info, &mut st).ok()
        });
        if let Ok(Some(states)) = typed {
            let k = mutate_typed(&mut p, &states, &mut rng);
            return (bi, vec![k], p);
        }
    }
    let k = match rng.below(10) {
        0..=5 => 1,
        6..=7 => 2,
        8 => 3,
        _ => 0,
    };
    let mut kinds = vec![];
    for _ in 0..k {
        kinds.push(mutate_once(&mut p, &mut rng));
    }
    (bi, kinds, p)
}

/// Shared by C14 and C15: run mutants through the pipeline; `prop` decides what is reported.
pub fn sierra_worker(ctx: &mut Ctx, prop: &str) {
    install_panic_hook();
    set_memory_limit(6 << 30);
    let corpus = load_corpus(ctx.tier.pick(400, 3000));
    ctx.count("corpus_programs", corpus.programs.len() as u64);
    if corpus.programs.is_empty() {
        ctx.harness_error("empty Sierra corpus".into());
        return;
    }
    let total: u64 = ctx.tier.pick(240_000, 6_000_000);
    for idx in 0..total {
        if !ctx.mine(idx) {
            continue;
        }
        let (bi, kinds, p) = build_mutant(&corpus, ctx.seed, idx);
        let base = corpus.programs[bi].0.clone();
        if prop == "C14" {
            ctx.begin_case(idx, &program_case_desc(&base, ctx.seed, idx));
        }
        ctx.eval();
        for k in &kinds {
            ctx.count(&format!("kind.{k}"), 1);
        }
        let mutated = !kinds.is_empty() && p != corpus.programs[bi].1;
        let replay = json!({"kind": "program", "base": base, "seed": ctx.seed, "idx": idx, "mutations": kinds});
        // Linear solvers.
        let r = guarded(|| pipeline(&p, 0));
        let (stage, info) = match r {
            Ok(x) => x,
            Err((loc, msg)) => {
                if prop == "C14" {
                    ctx.violation(&panic_sig(&loc, &msg), &format!("panic at {loc}: {msg} [mutant {idx} of {base}, {kinds:?}, linear solvers]"), replay.clone());
                } else {
                    ctx.count("cross.C14.panics", 1);
                }
                ctx.nontrivial(idx);
                continue;
            }
        };
        ctx.count(&format!("linear.{stage:?}"), 1);
        // Legacy solvers on every second mutant, alternating between the two legacy modes.
        if idx % 2 == 0 && stage != Stage::RejectedRegistry {
            let mode = 1 + ((idx / 2) % 2) as u8;
            match guarded(|| pipeline(&p, mode)) {
                Ok((s, _)) => ctx.count(&format!("legacy{mode}.{s:?}"), 1),
                Err((loc, msg)) => {
                    if prop == "C14" {
                        ctx.violation(&panic_sig(&loc, &msg), &format!("panic at {loc}: {msg} [mutant {idx} of {base}, {kinds:?}, legacy solvers mode {mode}]"), replay.clone());
                    } else {
                        ctx.count("cross.C14.panics", 1);
                    }
                }
            }
        }
        if mutated {
            // Non-trivial: a mutant that differs from its base; its identity is its index.
            ctx.nontrivial(idx);
        }
        if stage == Stage::Accepted {
            if mutated {
                ctx.count("accepted_mutants", 1);
            }
            // C15: the independent checker must accept whatever the compiler accepted.
            let mut stats = CheckStats::default();
            let info = info.unwrap();
            match guarded(|| independent_check(&p, &info, &mut stats)) {
                Ok(Ok(())) => {
                    ctx.count("checker.statements_visited", stats.statements_visited as u64);
                    ctx.count("checker.merges_checked", stats.merges_checked as u64);
                    ctx.count("checker.dup_drop_checked", (stats.dup_checked + stats.drop_checked) as u64);
                    ctx.count("checker.flags_cross_checked", stats.flags_cross_checked as u64);
                    ctx.count("checker.unreachable_statements", stats.unreachable_statements as u64);
                }
                Ok(Err(e)) => {
                    if prop == "C15" {
                        ctx.violation(
                            &format!("accepted-but-{}", e.class),
                            &format!("compile() accepted mutant {idx} of {base} ({kinds:?}) but the independent checker rejects it: {}", e.detail),
                            replay.clone(),
                        );
                    } else {
                        ctx.count("cross.C15.violations", 1);
                    }
                }
                Err((loc, msg)) => {
                    ctx.harness_error(format!("independent checker panicked at {loc}: {msg}"));
                }
            }
        }
        if idx % 40_000 == 3 {
            ctx.sample(json!({"base": base, "idx": idx, "mutations": kinds, "stage": format!("{stage:?}")}));
        }
        ctx.maybe_flush();
    }
    if prop == "C14" {
        felt_level(ctx, &corpus);
    }
}

fn felt_level(ctx: &mut Ctx, corpus: &SierraCorpus) {
    let total: u64 = ctx.tier.pick(6_000, 200_000);
    if corpus.classes.is_empty() {
        ctx.harness_error("no contract classes in corpus".into());
        return;
    }
    for k in 0..total {
        let idx = (1u64 << 40) + k;
        if !ctx.mine(idx) {
            continue;
        }
        let mut rng = Rng::derive(ctx.seed, &[141, k]);
        let ci = rng.below(corpus.classes.len());
        let mut class = corpus.classes[ci].1.clone();
        // Keep cost bounded: large classes are mutated less often.
        if class.sierra_program.len() > 30_000 && !rng.chance(1, 8) {
            continue;
        }
        let n = class.sierra_program.len();
        let kind = match rng.below(11) {
            8 | 9 if n > 12 => {
                // Length-field-aware truncation: cut the vector so that a header felt, read as a
                // count of what follows it, fits exactly (or is off by one).
                let i = rng.below(12);
                let v = class.sierra_program[i].value.clone();
                let want = u64::try_from(&v).ok().and_then(|v| usize::try_from(v).ok()).filter(|v| *v < n);
                match want {
                    Some(v) => {
                        let len = (v + i + 1 + rng.below(3)).saturating_sub(1).min(n);
                        class.sierra_program.truncate(len);
                        "truncate-to-length-field"
                    }
                    None => {
                        class.sierra_program.truncate(rng.below(n));
                        "truncate"
                    }
                }
            }
            10 if n > 12 => {
                // Length-field-aware edit: a header felt is set to exactly the number of felts
                // after it (or one more / one less).
                let i = rng.below(12);
                let after = n - i - 1;
                let v = (after + rng.below(3)).saturating_sub(1);
                class.sierra_program[i].value = BigUint::from(v as u64);
                "length-field-fits-exactly"
            }
            0 => {
                class.sierra_program = (0..rng.below(64))
                    .map(|_| BigUintAsHex { value: BigUint::from(rng.next_u64()) })
                    .collect();
                "random-vector"
            }
            1 if n > 0 => {
                let i = rng.below(n);
                class.sierra_program[i].value = BigUint::from(rng.next_u64() % 300);
                "felt-small"
            }
            2 if n > 0 => {
                let i = rng.below(n);
                class.sierra_program[i].value = BigUint::from(rng.next_u64()) << (64 * rng.below(4));
                "felt-large"
            }
            3 if n > 0 => {
                class.sierra_program.truncate(rng.below(n));
                "truncate"
            }
            4 if n > 0 => {
                let i = rng.below(n);
                let v = &mut class.sierra_program[i].value;
                *v = if rng.bool() { v.clone() + 1u32 } else if *v > BigUint::from(0u32) { v.clone() - 1u32 } else { BigUint::from(1u32) };
                "felt-off-by-one"
            }
            5 if n > 1 => {
                let i = rng.below(n);
                let j = rng.below(n);
                class.sierra_program.swap(i, j);
                "felt-swap"
            }
            6 if n > 0 => {
                let i = rng.below(n);
                let len = 1 + rng.below(20);
                let chunk: Vec<_> = class.sierra_program[i..(i + len).min(n)].to_vec();
                let at = rng.below(n);
                for (o, c) in chunk.into_iter().enumerate() {
                    class.sierra_program.insert((at + o).min(class.sierra_program.len()), c);
                }
                "splice"
            }
            _ if n > 0 => {
                // Length-prefix style edit near the header.
                let i = rng.below(n.min(12));
                class.sierra_program[i].value = BigUint::from(rng.next_u64() % (n as u64 * 2 + 2));
                "header-edit"
            }
            _ => "noop",
        };
        ctx.begin_case(idx, &format!("{{\"class\":{:?},\"seed\":{},\"k\":{k}}}", corpus.classes[ci].0, ctx.seed));
        ctx.eval();
        ctx.count(&format!("feltkind.{kind}"), 1);
        let pythonic = rng.bool();
        let class2 = class.clone();
        let r = guarded(move || {
            let Ok(extracted) = class2.extract_sierra_program(false) else {
                return "rejected-deserialize";
            };
            match CasmContractClass::from_contract_class(class2, extracted, pythonic, 180_000) {
                Ok(_) => "accepted",
                Err(_) => "rejected-compile",
            }
        });
        match r {
            Ok(s) => {
                ctx.count(&format!("felt.{s}"), 1);
                ctx.nontrivial(idx);
            }
            Err((loc, msg)) => {
                ctx.nontrivial(idx);
                ctx.violation(
                    &panic_sig(&loc, &msg),
                    &format!("panic at {loc}: {msg} [felt mutant {kind} of {}]", corpus.classes[ci].0),
                    json!({"kind": "felts", "class": corpus.classes[ci].0, "seed": ctx.seed, "k": k,
                        "felts": class.sierra_program.iter().take(20000).map(|f| f.value.to_string()).collect::<Vec<_>>()}),
                );
            }
        }
        ctx.maybe_flush();
    }
}

pub fn sierra_replay(prop: &str, case: &serde_json::Value) -> Result<Option<String>, String> {
    install_panic_hook();
    set_memory_limit(6 << 30);
    let kind = case.get("kind").and_then(|k| k.as_str()).unwrap_or("program");
    if kind == "felts" {
        let corpus = load_corpus(0);
        let name = case["class"].as_str().ok_or("no class")?;
        let (_, base) = corpus.classes.iter().find(|(n, _)| n == name).ok_or("class not in corpus")?;
        let mut class = base.clone();
        class.sierra_program = case["felts"]
            .as_array()
            .ok_or("no felts")?
            .iter()
            .map(|f| BigUintAsHex { value: f.as_str().unwrap_or("0").parse().unwrap_or_default() })
            .collect();
        for pythonic in [false, true] {
            let c = class.clone();
            let r = guarded(move || {
                if let Ok(e) = c.extract_sierra_program(false) {
                    let _ = CasmContractClass::from_contract_class(c, e, pythonic, 180_000);
                }
            });
            if let Err((loc, msg)) = r {
                return Ok(Some(format!("panic at {loc}: {msg}")));
            }
        }
        return Ok(None);
    }
    // Crash cases store the journal line, which has the same fields.
    let case: serde_json::Value = if let Some(c) = case.get("crash_case").and_then(|c| c.as_str()) {
        serde_json::from_str(c).map_err(|e| e.to_string())?
    } else {
        case.clone()
    };
    if case.get("class").is_some() {
        return Err("crash replay of felt mutants is not supported".into());
    }
    let seed = case["seed"].as_u64().ok_or("no seed")?;
    let idx = case["idx"].as_u64().ok_or("no idx")?;
    // The corpus bound depends on the tier the case came from; try both.
    for bound in [400usize, 3000] {
        let corpus = load_corpus(bound);
        let (bi, kinds, p) = build_mutant(&corpus, seed, idx);
        if corpus.programs[bi].0 != case["base"].as_str().unwrap_or("") {
            continue;
        }
        let mut failures = vec![];
        for mode in [0u8, 1, 2] {
            let linear = mode == 0;
            match guarded(|| pipeline(&p, mode)) {
                Ok((Stage::Accepted, Some(info))) if prop == "C15" && linear => {
                    let mut st = CheckStats::default();
                    if let Err(e) = independent_check(&p, &info, &mut st) {
                        failures.push(format!("accepted-but-{}: {}", e.class, e.detail));
                    }
                }
                Ok(_) => {}
                Err((loc, msg)) => {
                    if prop == "C14" {
                        failures.push(format!("panic at {loc}: {msg} ({kinds:?}, solver mode {mode})"));
                    }
                }
            }
        }
        return Ok(failures.into_iter().next());
    }
    Err("base program of the replay not found in the corpus".into())
}

#[allow(dead_code)]
fn _unused(_: HashMap<u8, u8>) {
    let _ = fnv_str("");
}
