//! C11: formatting is idempotent and changes layout only.

use std::collections::{BTreeMap, BTreeSet};

use cairo_lang_formatter::{CollectionsBreakingBehavior as B, FormatterConfig, get_formatted_file};
use cairo_lang_parser::utils::SimpleParserDatabase;
use cairo_lang_syntax::node::SyntaxNode;
use cairo_lang_syntax::node::kind::SyntaxKind;
use salsa::Database;
use serde_json::json;

use crate::frontend::{guarded, install_panic_hook, is_trivia_token, panic_sig};
use crate::report::Ctx;
use crate::rng::{Rng, fnv_str};

#[derive(Clone, Debug, serde::Serialize, serde::Deserialize)]
pub struct FmtCfg {
    pub tab: usize,
    pub width: usize,
    pub sort: bool,
    pub merge: bool,
    pub dup: bool,
    pub tuple_lbl: bool,
    pub array_lbl: bool,
    pub macro_lbl: bool,
}

impl FmtCfg {
    pub fn to_config(&self) -> FormatterConfig {
        let b = |x: bool| if x { B::LineByLine } else { B::SingleBreakPoint };
        FormatterConfig { tab_size: self.tab, max_line_length: self.width, ..FormatterConfig::default() }
            .sort_module_level_items(Some(self.sort))
            .merge_use_items(Some(self.merge))
            .allow_duplicate_uses(Some(self.dup))
            .tuple_breaking_behavior(Some(b(self.tuple_lbl)))
            .fixed_array_breaking_behavior(Some(b(self.array_lbl)))
            .macro_call_breaking_behavior(Some(b(self.macro_lbl)))
    }
    pub fn name(&self) -> String {
        format!(
            "tab{}-w{}{}{}{}{}{}{}",
            self.tab,
            self.width,
            if self.sort { "-sort" } else { "" },
            if self.merge { "-merge" } else { "" },
            if self.dup { "-dup" } else { "" },
            if self.tuple_lbl { "-tL" } else { "" },
            if self.array_lbl { "-aL" } else { "" },
            if self.macro_lbl { "-mL" } else { "" }
        )
    }
    pub fn default_cfg() -> FmtCfg {
        FmtCfg { tab: 4, width: 100, sort: true, merge: true, dup: false, tuple_lbl: true, array_lbl: false, macro_lbl: false }
    }
    pub fn random(rng: &mut Rng) -> FmtCfg {
        FmtCfg {
            tab: *rng.pick(&[2usize, 4, 8]),
            width: *rng.pick(&[20usize, 40, 80, 100, 120]),
            sort: rng.bool(),
            merge: rng.bool(),
            dup: rng.bool(),
            tuple_lbl: rng.bool(),
            array_lbl: rng.bool(),
            macro_lbl: rng.bool(),
        }
    }
}

/// What is extracted from a parsed text for the comparison.
#[derive(Debug, Default)]
pub struct Extract {
    /// Code tokens outside `use` items and `mod x;` declarations, in order.
    pub tokens: Vec<String>,
    /// Code tokens of all items, in order (used when sorting and merging are off).
    pub all_tokens: Vec<String>,
    /// Expanded imported paths of every `use` item (with their attribute/visibility prefix).
    pub uses: BTreeSet<String>,
    pub use_list: Vec<String>,
    /// `mod x;` declarations.
    pub mods: BTreeMap<String, usize>,
    /// Comment texts in order.
    pub comments: Vec<String>,
    pub parse_errors: usize,
}

/// All token-level leaves under `n` in source order (`SyntaxNode::tokens` stops at terminals).
fn leaf_tokens<'a>(db: &'a dyn Database, n: SyntaxNode<'a>, out: &mut Vec<SyntaxNode<'a>>) {
    if n.text(db).is_some() {
        out.push(n);
        return;
    }
    for c in n.get_children(db).iter() {
        leaf_tokens(db, *c, out);
    }
}

fn node_tokens(db: &dyn Database, n: SyntaxNode<'_>, out: &mut Vec<String>) {
    // Down to the token level (`SyntaxNode::tokens` stops at terminals, which carry no text).
    if let Some(text) = n.text(db) {
        let k = n.kind(db);
        if !(is_trivia_token(k) || k == SyntaxKind::TokenEndOfFile || k == SyntaxKind::TokenMissing) {
            out.push(text.long(db).to_string());
        }
        return;
    }
    for c in n.get_children(db).iter() {
        node_tokens(db, *c, out);
    }
}

/// Expands the token sequence of a use item (`use a::{b, c::d as e, *};`) into leaf paths.
fn expand_use(tokens: &[String]) -> Vec<String> {
    // Split off the prefix up to and including `use`.
    let Some(upos) = tokens.iter().position(|t| t == "use") else {
        return vec![tokens.join(" ")];
    };
    let prefix = strip_trailing_commas(&tokens[..upos]).join(" ");
    let body: Vec<&str> = tokens[upos + 1..].iter().map(|s| s.as_str()).filter(|s| *s != ";").collect();
    fn rec(toks: &[&str], pos: &mut usize, base: String, out: &mut Vec<String>) {
        // Parses one use tree starting at *pos until a `,` or `}` at this level.
        let mut cur = base;
        while *pos < toks.len() {
            match toks[*pos] {
                "{" => {
                    *pos += 1;
                    loop {
                        if *pos >= toks.len() {
                            return;
                        }
                        if toks[*pos] == "}" {
                            *pos += 1;
                            break;
                        }
                        rec(toks, pos, cur.clone(), out);
                        if *pos < toks.len() && toks[*pos] == "," {
                            *pos += 1;
                        }
                    }
                    return;
                }
                "," | "}" => {
                    out.push(cur);
                    return;
                }
                t => {
                    cur.push_str(t);
                    if t == "as" {
                        cur.push(' ');
                    }
                    if *pos + 1 < toks.len() && toks[*pos + 1] == "as" {
                        cur.push(' ');
                    }
                    *pos += 1;
                }
            }
        }
        out.push(cur);
    }
    let mut out = vec![];
    let mut pos = 0;
    rec(&body, &mut pos, String::new(), &mut out);
    // `a::{self}` and `a` import the same thing; the merger prints the short form.
    out.into_iter().map(|p| format!("{prefix} use {}", p.strip_suffix("::self").unwrap_or(&p))).collect()
}

fn walk_items(db: &dyn Database, n: SyntaxNode<'_>, ex: &mut Extract) {
    let kind = n.kind(db);
    match kind {
        SyntaxKind::ItemUse => {
            let mut toks = vec![];
            node_tokens(db, n, &mut toks);
            for p in expand_use(&toks) {
                ex.use_list.push(p.clone());
                ex.uses.insert(p);
            }
            return;
        }
        SyntaxKind::ItemModule => {
            let has_body = n.get_children(db).iter().any(|c| c.kind(db) == SyntaxKind::ModuleBody);
            if !has_body {
                let mut toks = vec![];
                node_tokens(db, n, &mut toks);
                // Attribute arguments broken over lines get an optional trailing comma.
                *ex.mods.entry(strip_trailing_commas(&toks).join(" ")).or_default() += 1;
                return;
            }
        }
        _ => {}
    }
    if n.text(db).is_some() {
        if !is_trivia_token(kind) && kind != SyntaxKind::TokenEndOfFile && kind != SyntaxKind::TokenMissing {
            ex.tokens.push(n.text(db).unwrap().long(db).to_string());
        }
        return;
    }
    for c in n.get_children(db).iter() {
        walk_items(db, *c, ex);
    }
}

pub fn extract(text: &str) -> Extract {
    let db = SimpleParserDatabase::default();
    let (root, diags) = db.parse_virtual_with_diagnostics(text);
    let mut ex = Extract { parse_errors: diags.get_all().len(), ..Default::default() };
    walk_items(&db, root, &mut ex);
    node_tokens(&db, root, &mut ex.all_tokens);
    let mut leaves = vec![];
    leaf_tokens(&db, root, &mut leaves);
    for t in leaves {
        if matches!(
            t.kind(&db),
            SyntaxKind::TokenSingleLineComment
                | SyntaxKind::TokenSingleLineDocComment
                | SyntaxKind::TokenSingleLineInnerComment
        ) {
            if let Some(text) = t.text(&db) {
                ex.comments.push(text.long(&db).trim_end().to_string());
            }
        }
    }
    ex
}

/// Whether the first parser diagnostic of `text` lies inside a `macro` declaration.
fn first_error_in_macro_declaration(text: &str) -> bool {
    use cairo_lang_diagnostics::DiagnosticEntry;
    let db = SimpleParserDatabase::default();
    let (root, diags) = db.parse_virtual_with_diagnostics(text);
    let Some(first) = diags.get_all().into_iter().map(|d| d.location(&db).span.start.as_u32()).min() else {
        return false;
    };
    root.descendants(&db).any(|n| {
        n.kind(&db) == SyntaxKind::ItemMacroDeclaration && {
            let sp = n.span(&db);
            sp.start.as_u32() <= first && first <= sp.end.as_u32()
        }
    })
}

thread_local! {
    /// Self-test only: a function applied to the formatter's output, standing in for a broken formatter.
    static TAMPER: std::cell::Cell<Option<fn(&str) -> String>> = const { std::cell::Cell::new(None) };
}

pub fn format_text(text: &str, cfg: &FmtCfg) -> String {
    let db = SimpleParserDatabase::default();
    let (root, _) = db.parse_virtual_with_diagnostics(text);
    let out = get_formatted_file(&db, &root, cfg.to_config());
    match TAMPER.with(|t| t.get()) {
        Some(f) => f(&out),
        None => out,
    }
}

/// Monitor self-test: the oracle must reject each of a handful of deliberately broken formatters
/// on a small input, and accept the real one. Returns the names of the self-tests that failed.
pub fn self_test() -> Vec<String> {
    const INPUT: &str = "use a::b as x;\nuse a::b as y;\nuse a::c;\n// keep me\nfn f(a: u8, b: u8) -> u8 {\n    // inner note\n    let t = (a, b,);\n    a + b\n}\n";
    fn drop_comment(s: &str) -> String {
        s.replacen("// inner note", "//", 1)
    }
    fn drop_token(s: &str) -> String {
        s.replacen("a + b", "a b", 1)
    }
    fn change_token(s: &str) -> String {
        s.replacen("a + b", "a - b", 1)
    }
    fn drop_import(s: &str) -> String {
        s.replacen("b as y, ", "", 1).replacen("use a::b as y;\n", "", 1)
    }
    fn grow(s: &str) -> String {
        // Never reaches a fixpoint: every pass adds a blank line before `fn`.
        s.replacen("fn f", "\n\nfn  f", 1)
    }
    fn break_syntax(s: &str) -> String {
        s.replacen("-> u8 {", "-> u8 {{", 1)
    }
    let merged = FmtCfg::default_cfg();
    let plain = FmtCfg { sort: false, merge: false, ..FmtCfg::default_cfg() };
    let mut failed = vec![];
    for cfg in [&merged, &plain] {
        if !matches!(check_format(INPUT, cfg), Ok(true)) {
            failed.push(format!("real-formatter-accepted({})", cfg.name()));
        }
    }
    let cases: [(&str, fn(&str) -> String, &FmtCfg, &str); 8] = [
        ("drop-comment", drop_comment, &plain, "comments-changed"),
        ("drop-comment-sorted", drop_comment, &merged, "comments-changed"),
        ("drop-token", drop_token, &plain, ""),
        ("change-token", change_token, &plain, "tokens-changed"),
        ("change-token-sorted", change_token, &merged, "tokens-changed"),
        ("drop-import", drop_import, &merged, "uses-changed"),
        ("never-idempotent", grow, &plain, "not-idempotent"),
        ("output-does-not-parse", break_syntax, &plain, "output-does-not-parse"),
    ];
    for (name, f, cfg, want) in cases {
        TAMPER.with(|t| t.set(Some(f)));
        let r = guarded(|| check_format(INPUT, cfg));
        TAMPER.with(|t| t.set(None));
        match r {
            Ok(Err((sig, _))) if sig.starts_with(want) => {}
            other => failed.push(format!("{name}: expected {want:?}, oracle said {:?}", other.map(|x| x.map_err(|e| e.0)).map_err(|e| e.1))),
        }
    }
    failed
}

/// Removes the optional tokens the formatter canonicalizes on purpose (node_properties.rs
/// `should_skip_terminal`): commas that directly precede a closing delimiter, the `;` after a
/// block-like statement (`if .. {};`), and the `::` before the generic arguments of a type path
/// (`Box::<T>` in type position). Applied to both sides of the comparison.
fn strip_trailing_commas(toks: &[String]) -> Vec<&str> {
    let mut out: Vec<&str> = vec![];
    for (i, t) in toks.iter().enumerate() {
        if t == ";" && i > 0 && toks[i - 1] == "}" {
            continue;
        }
        if t == "::" && toks.get(i + 1).is_some_and(|n| n == "<") {
            continue;
        }
        if t == "," {
            if let Some(n) = toks.get(i + 1) {
                // `|` closes a closure's parameter list (a comma before an opening `|` is dropped on
                // both sides of the comparison alike).
                if matches!(n.as_str(), ")" | "]" | "}" | ">" | "|") {
                    continue;
                }
            }
        }
        out.push(t);
    }
    out
}

/// The C11 oracle for one (text, config). `Ok(true)` = all obligations evaluated and held.
pub fn check_format(text: &str, cfg: &FmtCfg) -> Result<bool, (String, String)> {
    let before = extract(text);
    if before.parse_errors > 0 {
        return Ok(false);
    }
    let f1 = format_text(text, cfg);
    let after = extract(&f1);
    if after.parse_errors > 0 {
        let in_macro = first_error_in_macro_declaration(&f1);
        return Err((
            format!("output-does-not-parse:{}", if in_macro { "in-macro-declaration" } else { "other" }),
            format!("formatted output has {} parser diagnostics", after.parse_errors),
        ));
    }
    let f2 = format_text(&f1, cfg);
    if f2 != f1 {
        let at = f1.bytes().zip(f2.bytes()).take_while(|(a, b)| a == b).count();
        let line = f1[..at.min(f1.len())].matches('\n').count() + 1;
        let ctx1: String = f1.lines().skip(line.saturating_sub(2)).take(3).collect::<Vec<_>>().join("\\n");
        let ctx2: String = f2.lines().skip(line.saturating_sub(2)).take(3).collect::<Vec<_>>().join("\\n");
        // Signature: the shape of the difference, not the input.
        let squeeze = |t: &str| -> Vec<String> {
            t.lines()
                .map(|l| l.replacen("//", " //", 1).split_whitespace().collect::<Vec<_>>().join(" "))
                .collect()
        };
        let l1: Vec<&str> = f1.lines().collect();
        let l2: Vec<&str> = f2.lines().collect();
        // The first changed hunk: from the first differing line to where the two outputs fall
        // back in step (three equal lines in a row). A re-broken construct is re-indented up to
        // its end, so the hunk covers the construct whose layout flipped.
        let first = line - 1;
        let mut hunk_len = 1usize;
        let limit = 400usize;
        'sync: for total in 0..2 * limit {
            for i in 0..=total.min(limit) {
                let j = total - i;
                if j > limit {
                    continue;
                }
                let (a, b) = (first + i, first + j);
                if a + 3 <= l1.len() && b + 3 <= l2.len() && (i > 0 || j > 0) && l1[a..a + 3] == l2[b..b + 3] {
                    hunk_len = i.max(1);
                    break 'sync;
                }
            }
            hunk_len = l1.len().saturating_sub(first).max(1);
        }
        let near_comment = (line.saturating_sub(3)..(first + hunk_len + 2).min(l1.len()))
            .any(|i| l1.get(i).is_some_and(|l| l.contains("//")));
        let near_use = (line.saturating_sub(3)..(line + 2).min(l1.len()))
            .any(|i| l1.get(i).is_some_and(|l| l.trim_start().starts_with("use ") || l.trim_start().starts_with("pub use ")));
        let class = if squeeze(&f1) == squeeze(&f2) && near_comment {
            "comment-spacing".to_string()
        } else if near_comment {
            "rebreak-near-comment".to_string()
        } else if near_use && (cfg.sort || cfg.merge) {
            "use-items".to_string()
        } else {
            let first_word = f1.lines().nth(line - 1).unwrap_or("").trim_start().split([' ', '(', ':']).next().unwrap_or("").to_string();
            format!("other:{first_word}")
        };
        return Err((
            format!("not-idempotent:{class}"),
            format!("formatting the output again changes it at line {line}: first pass {ctx1:?}, second pass {ctx2:?}"),
        ));
    }
    // Comments. Long comments are re-wrapped to the line width (a layout change), so what is
    // compared is the sequence of (comment kind, word), not the sequence of comment lines.
    let words = |cs: &[String]| -> Vec<(String, String)> {
        let mut out = vec![];
        for c in cs {
            // The marker is the whole run of slashes (plus `!`): a wrapped `//////// text`
            // repeats all of it on the continuation line.
            let run = c.len() - c.trim_start_matches('/').len();
            let run = if c[run..].starts_with('!') { run + 1 } else { run };
            let (marker, rest) = c.split_at(run);
            for w in rest.split_whitespace() {
                out.push((marker.to_string(), w.to_string()));
            }
        }
        out
    };
    let mut c1 = words(&before.comments);
    let mut c2 = words(&after.comments);
    if !cfg.sort && !cfg.merge {
        if c1 != c2 {
            let i = c1.iter().zip(c2.iter()).take_while(|(a, b)| a == b).count();
            return Err(("comments-changed".into(), format!("comment words differ (order-sensitive): {} before, {} after; first difference at word {i}: {:?} vs {:?}",
                c1.len(), c2.len(), c1.get(i), c2.get(i))));
        }
    } else {
        c1.sort();
        c2.sort();
        if c1 != c2 {
            let lost: Vec<&(String, String)> = c1.iter().filter(|c| !c2.contains(c)).take(3).collect();
            let added: Vec<&(String, String)> = c2.iter().filter(|c| !c1.contains(c)).take(3).collect();
            return Err(("comments-changed".into(), format!("multiset of comment words differs: lost {lost:?}, added {added:?} ({} before, {} after)", c1.len(), c2.len())));
        }
    }
    // Code tokens.
    if !cfg.sort && !cfg.merge {
        let a = strip_trailing_commas(&before.all_tokens);
        let b = strip_trailing_commas(&after.all_tokens);
        if a != b {
            let i = a.iter().zip(b.iter()).take_while(|(x, y)| x == y).count();
            return Err(("tokens-changed".into(), format!("code tokens differ at token {i}: {:?} vs {:?}",
                &a[i.saturating_sub(4)..(i + 5).min(a.len())], &b[i.saturating_sub(4)..(i + 5).min(b.len())])));
        }
    } else {
        let a = strip_trailing_commas(&before.tokens);
        let b = strip_trailing_commas(&after.tokens);
        if a != b {
            let i = a.iter().zip(b.iter()).take_while(|(x, y)| x == y).count();
            return Err(("tokens-changed".into(), format!("code tokens outside use/mod declarations differ at token {i}: {:?} vs {:?}",
                &a[i.saturating_sub(4)..(i + 5).min(a.len())], &b[i.saturating_sub(4)..(i + 5).min(b.len())])));
        }
        if before.mods != after.mods {
            return Err(("mods-changed".into(), "the multiset of `mod x;` declarations differs".into()));
        }
        let same_uses = if cfg.merge || !cfg.dup {
            before.uses == after.uses
        } else {
            let mut x = before.use_list.clone();
            let mut y = after.use_list.clone();
            x.sort();
            y.sort();
            x == y
        };
        if !same_uses {
            let lost: Vec<&String> = before.uses.difference(&after.uses).take(3).collect();
            let added: Vec<&String> = after.uses.difference(&before.uses).take(3).collect();
            return Err(("uses-changed".into(), format!("imported paths differ: lost {lost:?}, added {added:?}")));
        }
    }
    Ok(true)
}

// ---------------------------------------------------------------------------------------------
// Layout mutants.

/// Re-rolls layout of an error-free text; returns the mutant and the kind.
pub fn layout_mutant(text: &str, rng: &mut Rng, uid: &mut u64) -> (String, &'static str) {
    let spans = crate::frontend::token_spans(text);
    if spans.is_empty() {
        return (text.to_string(), "identity");
    }
    let kind = rng.below(8);
    let mut out = String::new();
    match kind {
        0 | 1 => {
            // Re-roll inter-token whitespace (gaps containing comments are kept verbatim).
            let mut prev_end = 0usize;
            for (a, b) in &spans {
                let gap = &text[prev_end..*a];
                if gap.contains("//") || prev_end == 0 {
                    out.push_str(gap);
                } else if gap.is_empty() {
                } else {
                    match rng.below(if kind == 0 { 6 } else { 3 }) {
                        0 => out.push(' '),
                        1 => out.push_str("  "),
                        2 => out.push('\n'),
                        3 => out.push_str("\n\n\n"),
                        4 => out.push_str("\n        "),
                        _ => out.push_str(" \t "),
                    }
                }
                out.push_str(&text[*a..*b]);
                prev_end = *b;
            }
            out.push_str(&text[prev_end..]);
            (out, if kind == 0 { "whitespace-reroll" } else { "whitespace-squeeze" })
        }
        2 => {
            // Inject uniquely numbered comments at token boundaries.
            let n = 1 + rng.below(6);
            let mut at: Vec<usize> = (0..n).map(|_| spans[rng.below(spans.len())].0).collect();
            at.sort();
            at.dedup();
            let mut prev = 0usize;
            for a in at {
                out.push_str(&text[prev..a]);
                *uid += 1;
                match rng.below(3) {
                    0 => out.push_str(&format!("// v{uid}\n")),
                    1 => out.push_str(&format!("\n// v{uid}\n")),
                    _ => out.push_str(&format!("/// v{uid}\n")),
                }
                prev = a;
            }
            out.push_str(&text[prev..]);
            (out, "comment-inject")
        }
        3 => {
            // Trailing comments after tokens.
            let n = 1 + rng.below(4);
            let mut at: Vec<usize> = (0..n).map(|_| spans[rng.below(spans.len())].1).collect();
            at.sort();
            at.dedup();
            let mut prev = 0usize;
            for a in at {
                out.push_str(&text[prev..a]);
                *uid += 1;
                out.push_str(&format!(" // v{uid}\n"));
                prev = a;
            }
            out.push_str(&text[prev..]);
            (out, "trailing-comment-inject")
        }
        6 | 7 => {
            // Comments where people write them: on their own line after `;`, `{` or `}`, and at
            // the end of a line after `;` or `,`.
            let n = 1 + rng.below(8);
            let cands: Vec<usize> = spans
                .iter()
                .filter(|(a, b)| matches!(&text[*a..*b], ";" | "{" | "}" | ","))
                .map(|(_, b)| *b)
                .collect();
            if cands.is_empty() {
                return (text.to_string(), "identity");
            }
            let mut at: Vec<usize> = (0..n).map(|_| *rng.pick(&cands)).collect();
            at.sort();
            at.dedup();
            let mut prev = 0usize;
            for a in at {
                out.push_str(&text[prev..a]);
                *uid += 1;
                let own_line = text[..a].ends_with(';') || text[..a].ends_with('{') || text[..a].ends_with('}');
                if own_line && rng.bool() {
                    out.push_str(&format!("\n// v{uid}\n"));
                } else {
                    out.push_str(&format!(" // v{uid}\n"));
                }
                prev = a;
            }
            out.push_str(&text[prev..]);
            (out, "comment-inject-usual-places")
        }
        4 => {
            // Rename identifiers consistently to very long or very short names.
            let db = SimpleParserDatabase::default();
            let (root, _) = db.parse_virtual_with_diagnostics(text);
            let mut idents: Vec<(usize, usize)> = vec![];
            let mut leaves = vec![];
            leaf_tokens(&db, root, &mut leaves);
            for t in leaves {
                if t.kind(&db) == SyntaxKind::TokenIdentifier {
                    let sp = t.span(&db);
                    idents.push((sp.start.as_u32() as usize, sp.end.as_u32() as usize));
                }
            }
            let long = rng.bool();
            let mut names: BTreeMap<String, String> = BTreeMap::new();
            let mut prev = 0usize;
            for (a, b) in idents {
                if a < prev {
                    continue;
                }
                let orig = &text[a..b];
                out.push_str(&text[prev..a]);
                // Keep well-known names that the grammar treats specially.
                if matches!(orig, "self" | "super" | "crate" | "core" | "starknet" | "_" | "derive" | "test" | "cfg" | "inline" | "feature" | "allow" | "macro" | "defsite" | "callsite" | "expose") || orig.starts_with('_') {
                    out.push_str(orig);
                } else {
                    let k = names.len();
                    let new = names.entry(orig.to_string()).or_insert_with(|| {
                        if long {
                            format!("very_long_identifier_name_number_{k:08}_x")
                        } else {
                            format!("i{k}")
                        }
                    });
                    out.push_str(new);
                }
                prev = b;
            }
            out.push_str(&text[prev..]);
            (out, if long { "rename-long" } else { "rename-short" })
        }
        _ => {
            // Toggle trailing commas before closing delimiters.
            let mut prev_end = 0usize;
            for (i, (a, b)) in spans.iter().enumerate() {
                out.push_str(&text[prev_end..*a]);
                let tok = &text[*a..*b];
                let next = spans.get(i + 1).map(|(x, y)| &text[*x..*y]);
                if tok == "," && matches!(next, Some(")") | Some("]") | Some("}")) && rng.bool() {
                    // Drop it.
                } else {
                    out.push_str(tok);
                }
                prev_end = *b;
            }
            out.push_str(&text[prev_end..]);
            (out, "trailing-comma-drop")
        }
    }
}

/// A file made of `use` items (nested groups, aliases, repeated names and paths, `self`, `*`,
/// visibility, attributes, comments) and `mod` declarations: the input space of the sorting /
/// merging / de-duplicating options.
pub fn gen_use_file(rng: &mut Rng) -> String {
    const SEGS: &[&str] = &["a", "b", "c", "d", "core", "x", "yy", "Zed"];
    fn tree(rng: &mut Rng, depth: usize, out: &mut String) {
        let n = 1 + rng.below(3);
        for k in 0..n {
            if k > 0 {
                out.push_str("::");
            }
            out.push_str(SEGS[rng.below(SEGS.len())]);
        }
        match rng.below(8) {
            0 | 1 => {
                out.push_str(" as ");
                out.push_str(["x", "y", "alias", "b"][rng.below(4)]);
            }
            2 | 3 if depth > 0 => {
                out.push_str("::{");
                let m = 1 + rng.below(4);
                for k in 0..m {
                    if k > 0 {
                        out.push_str(", ");
                    }
                    if rng.chance(1, 8) {
                        out.push_str("self");
                    } else if rng.chance(1, 10) {
                        out.push('*');
                    } else {
                        tree(rng, depth - 1, out);
                    }
                }
                if rng.bool() {
                    out.push(',');
                }
                out.push('}');
            }
            4 if rng.chance(1, 3) => out.push_str("::*"),
            _ => {}
        }
    }
    let mut s = String::new();
    let n = 2 + rng.below(9);
    let mut earlier: Vec<String> = vec![];
    for i in 0..n {
        if rng.chance(1, 6) {
            s.push_str(&format!("// note {i}\n"));
        }
        if rng.chance(1, 8) {
            s.push_str(&format!("mod m{};\n", rng.below(4)));
            continue;
        }
        if rng.chance(1, 8) {
            s.push_str("#[cfg(test)]\n");
        }
        if rng.chance(1, 6) {
            s.push_str("pub ");
        }
        s.push_str("use ");
        // Re-import something already imported (same path, usually another alias) now and then.
        if !earlier.is_empty() && rng.chance(1, 3) {
            let base = earlier[rng.below(earlier.len())].clone();
            let base = base.split(" as ").next().unwrap().to_string();
            s.push_str(&base);
            if rng.chance(2, 3) {
                s.push_str(" as ");
                s.push_str(["x", "y", "alias", "other"][rng.below(4)]);
            }
        } else {
            let mut t = String::new();
            tree(rng, 2, &mut t);
            if !t.contains('{') && !t.contains('*') {
                earlier.push(t.clone());
            }
            s.push_str(&t);
        }
        s.push_str(";\n");
        if rng.chance(1, 7) {
            s.push('\n');
        }
    }
    s.push_str("fn main() {}\n");
    s
}

pub fn c11_worker(ctx: &mut Ctx) {
    install_panic_hook();
    // The monitor tests itself before it is believed.
    let failed = self_test();
    ctx.count("selftest.broken_formatters_rejected", if ctx.shard == 0 { 8 - failed.iter().filter(|f| !f.starts_with("real")).count() as u64 } else { 0 });
    for f in failed {
        ctx.harness_error(format!("C11 oracle self-test failed: {f}"));
    }
    let mut files: Vec<(String, String)> = crate::corpus::cairo_files()
        .into_iter()
        .map(|(p, s)| (crate::corpus::rel(&p), s))
        .filter(|(_, s)| s.len() < 120_000)
        .collect();
    // Generated inputs: import blocks, and programs of the C01 generator (deeply nested
    // expressions on long lines).
    for i in 0..ctx.tier.pick(120u64, 1500) {
        let mut rng = Rng::derive(ctx.seed, &[1100, i]);
        files.push((format!("generated-uses#{i}"), gen_use_file(&mut rng)));
    }
    for i in 0..ctx.tier.pick(40u64, 500) {
        let mut rng = Rng::derive(ctx.seed, &[1, i]);
        if let Ok((program, _)) = guarded(|| crate::pgen::generate(&mut rng)) {
            files.push((format!("generated-program#{i}"), crate::pgen::render_program(&program)));
        }
    }
    ctx.count("corpus_files", if ctx.shard == 0 { files.len() as u64 } else { 0 });
    let mutants_per_file: u64 = ctx.tier.pick(3, 40);
    let cfgs_per_text: u64 = ctx.tier.pick(3, 8);
    let mut uid = (ctx.shard as u64) << 40;
    let mut idx = 0u64;
    for (fi, (name, text)) in files.iter().enumerate() {
        for m in 0..=mutants_per_file {
            idx += 1;
            if !ctx.mine(idx) {
                continue;
            }
            let mut rng = Rng::derive(ctx.seed, &[11, fi as u64, m]);
            let (t, kind) = if m == 0 {
                (text.clone(), "original")
            } else {
                match guarded(|| layout_mutant(text, &mut rng, &mut uid)) {
                    Ok(x) => x,
                    Err(_) => continue,
                }
            };
            for c in 0..cfgs_per_text {
                let cfg = if c == 0 { FmtCfg::default_cfg() } else if c == 1 {
                    FmtCfg { sort: false, merge: false, ..FmtCfg::random(&mut rng) }
                } else {
                    FmtCfg::random(&mut rng)
                };
                ctx.eval();
                let injected = kind.contains("comment-inject");
                let replay = if injected {
                    json!({"text": t, "cfg": cfg, "base": name, "kind": kind, "base_text": text})
                } else {
                    json!({"text": t, "cfg": cfg, "base": name, "kind": kind})
                };
                match guarded(|| check_with_attribution(&t, injected.then_some(text.as_str()), &cfg)) {
                    Ok(Ok(true)) => {
                        ctx.count(&format!("kind.{kind}"), 1);
                        ctx.count(if cfg.sort || cfg.merge { "checked.sort_or_merge_on" } else { "checked.token_exact" }, 1);
                        ctx.nontrivial(fnv_str(&format!("{}|{}", cfg.name(), t)));
                        if idx % 500 == 7 && c == 1 {
                            ctx.sample(json!({"base": name, "mutation": kind, "config": cfg.name(), "bytes": t.len()}));
                        }
                    }
                    Ok(Ok(false)) => {
                        ctx.count("not_error_free(out of domain)", 1);
                        break;
                    }
                    Ok(Err((sig, desc))) => {
                        ctx.violation(&sig, &format!("{desc} [{kind} of {name}, config {}]", cfg.name()), replay);
                    }
                    Err((loc, msg)) => {
                        ctx.violation(&panic_sig(&loc, &msg), &format!("formatter panicked at {loc}: {msg} [{kind} of {name}, config {}]", cfg.name()), replay);
                    }
                }
            }
            ctx.maybe_flush();
        }
    }
}

/// `check_format`, and for a text that is `base` plus comments injected by the mutator: an
/// idempotence / parse failure of unrecognised shape that disappears when the injected comments
/// are taken out again is attributed to them (`...:injected-comment`).
pub fn check_with_attribution(text: &str, base: Option<&str>, cfg: &FmtCfg) -> Result<bool, (String, String)> {
    match check_format(text, cfg) {
        Err((sig, desc)) if sig.starts_with("not-idempotent:other") || sig == "output-does-not-parse:other" => {
            if let Some(base) = base {
                if matches!(check_format(base, cfg), Ok(true)) {
                    let class = sig.split(':').next().unwrap_or("");
                    return Err((format!("{class}:injected-comment"), format!("{desc} - the same text without the injected comments passes")));
                }
            }
            Err((sig, desc))
        }
        other => other,
    }
}

pub fn c11_replay(case: &serde_json::Value) -> Result<Option<String>, String> {
    install_panic_hook();
    let text = case["text"].as_str().ok_or("no text")?;
    let cfg: FmtCfg = serde_json::from_value(case["cfg"].clone()).map_err(|e| e.to_string())?;
    match guarded(|| check_with_attribution(text, case["base_text"].as_str(), &cfg)) {
        Ok(Ok(true)) => Ok(None),
        Ok(Ok(false)) => Err("input is not error-free".into()),
        Ok(Err((sig, desc))) => Ok(Some(format!("{sig}: {desc}"))),
        Err((loc, msg)) => Ok(Some(format!("panic at {loc}: {msg}"))),
    }
}

pub fn minimize_c11(text: &str, cfg: &FmtCfg) -> (String, String) {
    install_panic_hook();
    crate::frontend::minimize_text(text, &mut |t| match guarded(|| check_format(t, cfg)) {
        Ok(Ok(_)) => None,
        Ok(Err((sig, _))) => Some(sig),
        Err((loc, msg)) => Some(panic_sig(&loc, &msg)),
    })
}
