//! Registry of the checks: static description, worker entry point and replay per property.

use serde_json::Value;

use crate::report::{Ctx, Spec, Tier};

const MIB: usize = 1 << 20;

pub fn spec(id: &str) -> Option<Spec> {
    Some(match id {
        "C09" => Spec {
            id: "C09",
            level: "exploration",
            rule: "Inputs are seeded byte/token/subtree-level mutants and token soups of the repo's .cairo files \
                   (16 mutation kinds, nesting <= 200). Every input goes through parse, tree walk, formatting \
                   under 3 configurations; every 8th also through syntax+semantic+lowering diagnostics on a \
                   RootDatabase (Starknet plugin on odd shards) with span checks. Non-trivial = distinct input \
                   text that produced >= 1 parser diagnostic AND reached semantic analysis with >= 1 module \
                   item recognised.",
            floor: |t| t.pick(150, 5000),
            shards: |_| 16,
            crash_is_violation: true,
            assumptions: &[
                "worker threads have the 8 MiB stack of the real tools' main thread",
                "watchdog expiry is inconclusive, not a violation",
                "hook H5 turns a parser loop without token consumption into a panic",
            ],
            worker_timeout_s: |t| t.pick(900, 4 * 3600),
            rayon_threads: 1,
        },
        "C10" => Spec {
            id: "C10",
            level: "exploration",
            rule: "Every .cairo file of the repo plus seeded byte/token/subtree-level mutants and token soups \
                   (same generator as C09) is parsed and its tree walked through the public SyntaxNode API: \
                   leaf concatenation == input, offsets/widths/spans consistent, leaf text == input[span], \
                   get_text == input[span]. Non-trivial = distinct input text for which the parser reported \
                   >= 1 diagnostic (error-recovery path taken), plus the unmutated files.",
            floor: |t| t.pick(1500, 50_000),
            shards: |_| 16,
            crash_is_violation: true,
            assumptions: &["the file content stored in the parser database is the input text"],
            worker_timeout_s: |t| t.pick(900, 4 * 3600),
            rayon_threads: 1,
        },
        "C02" => Spec {
            id: "C02",
            level: "exploration",
            rule: "Honest monitored runs in the real VM of (a) every function `test::*` of every e2e libfunc snippet and \
                   examples/ program, compiled under several configurations and both metadata solvers, on inputs \
                   generated from the Sierra parameter types (boundary+random) and 4 gas budgets (ample, exactly the \
                   entry cost, a few steps more, random), (b) every corelib #[test]. A run is in the domain if the \
                   program (for corelib tests: the executed statements) uses audited libfuncs only. Violation = VM \
                   error, or body steps > gas/100+1. Non-trivial = distinct (program, function, argument vector, gas \
                   class, configuration) whose trace has >= 3 body steps. Also (d) coverage programs (dictionaries, u256/u128 helpers, casts, circuits with inverse gates, call chains with very large ap changes, range-cast and bounded-int division wrappers) whose first three scalar inputs are swept over the whole boundary set, and (e) generated programs of C01's generator.",
            floor: |t| t.pick(1500, 10_000),
            shards: |_| 1,
            crash_is_violation: false,
            assumptions: &[
                "arguments are generated in-range from the Sierra types; functions with parameters that cannot be \
                 built from outside (boxes, dicts, EC points) are skipped and counted",
                "hints are the runner's honest hint processor",
            ],
            worker_timeout_s: |t| t.pick(1500, 6 * 3600),
            rayon_threads: 16,
        },
        "C04" => Spec {
            id: "C04",
            level: "exploration",
            rule: "Same executions as C02. For every completed run with gas tracking and no syscalls the inequality \
                   100*steps + 70*rc + 56*rc96 + sum price(b)*uses(b) <= (gas_in - gas_left) + 100 is evaluated with \
                   the runner's own price table (functions without a gas builtin: static entry cost). Both metadata \
                   solvers are used on the snippets. Non-trivial = distinct (program, function, args, gas class, \
                   configuration) with >= 3 body steps; min_gas_slack in `mins` shows how tight the bound was.",
            floor: |t| t.pick(1500, 10_000),
            shards: |_| 1,
            crash_is_violation: false,
            assumptions: &["prices are read from cairo_lang_runner::token_gas_cost and ConstCost::cost (100/70/56)"],
            worker_timeout_s: |t| t.pick(1500, 6 * 3600),
            rayon_threads: 16,
        },
        "C17" => Spec {
            id: "C17",
            level: "exploration",
            rule: "Same executions as C02. A shadow call stack over the relocated trace checks, for every dynamic call \
                   instance of a function with a declared ap change k, that ap_at_ret - ap_at_entry == k; every trace \
                   pc must start an instruction inside exactly one statement's recorded range (const-segment `ret`s \
                   whitelisted); statement ranges must tile the code and encoded lengths equal op_size. Non-trivial = \
                   distinct run with >= 3 body steps; `call_instances_checked` counts checked frames.",
            floor: |t| t.pick(1500, 10_000),
            shards: |_| 1,
            crash_is_violation: false,
            assumptions: &["instruction kinds (call/ret) are read from CairoProgram.instructions"],
            worker_timeout_s: |t| t.pick(1500, 6 * 3600),
            rayon_threads: 16,
        },
        "C14" => Spec {
            id: "C14",
            level: "exploration",
            rule: "Seeded 0-3 point mutants (18 mutation kinds: statement delete/swap/duplicate, libfunc/arg/result \
                   substitution, branch retarget incl. out-of-range, generic-arg add/remove/retype/extreme values, \
                   generic id swap, entry-point move, signature edit, declaration reorder, declared-type-info flip, \
                   return edit, arg/branch arity edit) of every parseable Sierra program in the repo (.sierra files and \
                   sierra_code sections) go through ProgramRegistryInfo::new -> calc_metadata (linear; legacy on every \
                   2nd, circuits excluded there) -> compile under catch_unwind with RLIMIT_AS=6GiB and a crash journal; \
                   plus felt-level mutants of every *.contract_class.json through extract_sierra_program -> \
                   CasmContractClass::from_contract_class. Non-trivial = distinct mutant index whose program differs \
                   from its base (felt mutants: every evaluated one).",
            floor: |t| t.pick(20_000, 500_000),
            shards: |_| 16,
            crash_is_violation: true,
            assumptions: &[
                "allocation failure under RLIMIT_AS=6GiB counts as unbounded allocation",
                "a worker exceeding its watchdog is reported as inconclusive together with the case it was running",
                "circuit programs are not fed to the legacy gas solver (documented as unsupported there)",
            ],
            worker_timeout_s: |t| t.pick(1200, 5 * 3600),
            rayon_threads: 1,
        },
        "C15" => Spec {
            id: "C15",
            level: "exploration",
            rule: "Same mutant stream as C14 (plus the unmutated corpus programs, 1 in 10). For every program that \
                   registry+metadata+compile ACCEPT, an independent forward data-flow checker (own work-list, own \
                   variable->type map, libfunc signatures from the registry, own copy/drop table for the simple core \
                   types) must accept it too: argument types equal, each variable consumed exactly once, merges agree on \
                   variable set and types, branches of multi-branch libfuncs land on branch_align, returns match the \
                   signature and leave nothing, dup/drop only on types that allow it, no statement in two functions. \
                   Non-trivial = distinct mutant that differs from its base; `accepted_mutants` counts the ones that \
                   reached the oracle.",
            floor: |t| t.pick(20_000, 500_000),
            shards: |_| 16,
            crash_is_violation: false,
            assumptions: &[
                "libfunc signatures (parameter/branch output types, BranchAlign marker) are read from the program registry",
                "the checker shares no code with annotations.rs / references.rs / edit_state.rs",
            ],
            worker_timeout_s: |t| t.pick(1200, 5 * 3600),
            rayon_threads: 1,
        },
        "C16" => Spec {
            id: "C16",
            level: "exploration",
            rule: "All instruction shapes (body kind x operand form x registers x ap++; enumerated completely, see \
                   counter shapes_enumerated) are instantiated with offsets from {-32768,-32767,-2,-1,0,1,2,32766,32767} \
                   (+ small random) and immediates from {0,1,-1,2,2^15,2^16,2^64,2^128,P-1,P-2^16,-2^200,small,random}; \
                   each concrete instruction is assembled+encoded, its length compared with op_size, its first word \
                   decoded by the VM's decoder, then loaded into a fresh cairo-vm at a random pc with 16 seeded machine \
                   states (some cells deliberately unset, pointers for double-deref / abs jumps) and stepped once; \
                   registers and every touched cell are compared with a reference one-step semantics (blake2s: an \
                   RFC 7693 compression function over seeded state / message / counter / output segments, all 8 register \
                   combinations x finalize; {QM31}: add and mul over packed elements incl. invalid packings). Non-trivial = distinct concrete instruction text with >= 1 state \
                   stepped and compared.",
            floor: |t| t.pick(2000, 50_000),
            shards: |_| 16,
            crash_is_violation: false,
            assumptions: &[
                "states where the VM would have to deduce an operand of a binary operation are not modelled (counted as states_unmodelled)",
                "{QM31} forms without an operation (deref / immediate right-hand sides) are encoded and decoded only",
            ],
            worker_timeout_s: |t| t.pick(900, 3 * 3600),
            rayon_threads: 1,
        },
        "C18" => Spec {
            id: "C18",
            level: "exploration",
            rule: "Programs: every parseable Sierra program text of the repo (.sierra files and sierra_code sections; all of them in both tiers) and the Sierra compiled from e2e/examples snippets \
                   under two configurations (with the compiler's raw interned ids as an extra representation). Per \
                   program: parse(display(s)) succeeds, display is a fixpoint, canonical forms equal (isomorphism); \
                   extract(ContractClass::new(canon(s))) == canon(s) and the class JSON round-trips; VersionedProgram \
                   JSON round trip (with and without debug info) == s; CASM text of s == CASM of canonical-id / text \
                   round-tripped / felt round-tripped / raw-id / name-stripped variants. Non-trivial = distinct program \
                   text that went through all serializers; `constructs_seen` lists generic-arg kinds and statement forms.",
            floor: |t| t.pick(400, 900),
            shards: |_| 1,
            crash_is_violation: false,
            assumptions: &["canonical ids (CanonicalReplacer) are what the felt serialization is specified for"],
            worker_timeout_s: |t| t.pick(1200, 4 * 3600),
            rayon_threads: 16,
        },
        "C19" => Spec {
            id: "C19",
            level: "exploration",
            rule: "Contracts: every contract of crates/cairo-lang-starknet/cairo_level_tests compiled by the real \
                   pipeline (thorough: 4 optimization configurations), every stored *.contract_class.json, and seeded \
                   generated contracts with varied entry-point sets and builtin use. Per class: static invariants \
                   (published-felts class == direct class, entry offsets == function starts and on VM-decoder \
                   instruction boundaries, builtin lists == signature builtins in protocol order, selectors increasing, \
                   words < P, hint offsets on boundaries, segment lengths sum and split at function starts, hashes \
                   stable over JSON, pythonic-hints and size-limit options) and a dynamic oracle: each entry point is \
                   executed from the class bytecode in cairo-vm with builtin segments passed in the DECLARED order, 3 \
                   calldata shapes; the run must complete, return every builtin pointer in its own segment, a valid \
                   gas value, syscall pointer and PanicResult. Non-trivial = distinct (class, static pass) and \
                   distinct (class, entry point, calldata shape) runs.",
            floor: |t| t.pick(100, 600),
            shards: |_| 1,
            crash_is_violation: false,
            assumptions: &[
                "the dynamic oracle emulates the OS calling convention documented in casm_contract_class.rs (bytecode + ret + builtin cost pointer, segment arena as 3 cells); it is not the Starknet OS",
                "syscalls are served by the runner's own emulation with an empty state",
            ],
            worker_timeout_s: |t| t.pick(1500, 4 * 3600),
            rayon_threads: 16,
        },
        "C11" => Spec {
            id: "C11",
            level: "exploration",
            rule: "Texts: every .cairo file of the repo that parses without diagnostics, in original form and as seeded \
                   layout mutants (inter-token whitespace re-rolled or squeezed, uniquely numbered comments injected at \
                   token boundaries and after tokens, identifiers consistently renamed to 2- or 40-character names, \
                   trailing commas dropped). Configurations: the default one, one with sorting and merging off, and \
                   random points of {tab 2|4|8} x {width 20|40|80|100|120} x sort x merge x allow-duplicate-uses x \
                   tuple/array/macro breaking. Oracle per (text, config): output parses without diagnostics; \
                   format(format(t)) == format(t); comments preserved (ordered when sorting/merging off, as a multiset \
                   otherwise); code tokens equal modulo commas before a closing delimiter (sorting/merging off), or \
                   tokens outside use items and `mod x;` declarations equal + same multiset of mod declarations + same \
                   set of expanded imported paths (on). Non-trivial = distinct (config, text) fully evaluated. Generated import blocks (nested groups, aliases, repeated paths, self, *) and generated programs are inputs too. Comments are compared as sequences of (marker, word) because long comments are re-wrapped. The oracle is self-tested against 8 deliberately broken formatters at start-up.",
            floor: |t| t.pick(1500, 30_000),
            shards: |_| 16,
            crash_is_violation: false,
            assumptions: &["token and comment extraction uses the repo's own lexer/parser on both sides of the comparison"],
            worker_timeout_s: |t| t.pick(1200, 4 * 3600),
            rayon_threads: 1,
        },
        "C12" => Spec {
            id: "C12",
            level: "exploration",
            rule: "Projects (examples/, the Starknet cairo_level_tests crate with all its contracts; thorough: also \
                   tests/bug_samples) are compiled repeatedly, each time on a fresh database inside a rayon pool of \
                   1/2/4/16 threads (so the parallel warm-up runs), with seeded delays at every warm-up task boundary \
                   (hook H4), a seeded prefix of unrelated queries (some on snapshots on other threads, another crate \
                   first) and either query order; diagnostics, Sierra text with debug names, canonical Sierra, CASM and \
                   contract-class JSON are compared byte for byte with a single-threaded reference. The hash of the \
                   raw interned ids is the observed-schedule fingerprint; a project whose runs all share one \
                   fingerprint is inconclusive. Non-trivial = distinct (project, config, schedule parameters) compared. /verif's own multi-module playground project is compiled too; projects with error diagnostics are compared on diagnostics only.",
            floor: |t| t.pick(20, 150),
            shards: |_| 1,
            crash_is_violation: false,
            assumptions: &["schedules are sampled; exact interleavings are not replayable, the replay repeats the schedule parameters 5 times"],
            worker_timeout_s: |t| t.pick(1500, 5 * 3600),
            rayon_threads: 16,
        },
        "C13" => Spec {
            id: "C13",
            level: "exploration",
            rule: "Edit histories (quick 14, thorough 30 edits) on 1-3 files of an on-disk project (examples/; thorough \
                   also tests/bug_samples) applied with override_file_content! to one long-lived RootDatabase: comments \
                   at top/middle/end, blank lines, rename of one / all occurrences, statement and item insertion, line \
                   and item deletion, item duplication, line swap, syntax-breaking edits repaired 1-4 steps later, \
                   restore, override unset; between edits nothing / diagnostics only / everything is queried. At \
                   comparison points the diagnostics string (with locations) and, if error-free, the Sierra text are \
                   compared with a FRESH database given the same contents. salsa `executing query` events are counted \
                   on both sides; non-trivial = distinct compared state where the incremental database executed < 90% \
                   of the fresh one's queries. Projects: examples/, /verif's playground (structs, enums, traits, impls, consts) and a playground with standing ownership errors whose diagnostics carry located notes; edit kinds include pure permutations (swap-similar-lines, move-line, move-item, duplicate-line).",
            floor: |t| t.pick(150, 3000),
            shards: |_| 16,
            crash_is_violation: false,
            assumptions: &["the fresh database gets the same contents through the same override mechanism"],
            worker_timeout_s: |t| t.pick(1500, 5 * 3600),
            rayon_threads: 1,
        },
        "C20" => Spec {
            id: "C20",
            level: "exploration",
            rule: "For each optimization configuration a corelib cache blob is generated (generate_crate_cache) and two \
                   databases are built that differ only in core's cache_file. Dependents (examples/ and a seeded sample \
                   of e2e/examples snippets) are compiled on both: diagnostics string, Sierra text and CASM text must be \
                   equal. Hook H3 counts lowerings served from the cache; non-trivial = distinct (dependent, config) \
                   that compiled to Sierra with > 0 cache-served lowerings (the from-source side must report 0). Library crates other than the corelib are cached too: a hand-written feature library with its dependent, and generated library/dependent pairs (the generated program with everything public, called from a second crate).",
            floor: |t| t.pick(25, 150),
            shards: |_| 8,
            crash_is_violation: false,
            assumptions: &["the cache is generated by the same build with the same optimization settings"],
            worker_timeout_s: |t| t.pick(1500, 5 * 3600),
            rayon_threads: 2,
        },
        "C06" => Spec {
            id: "C06",
            level: "exploration",
            rule: "Operator matrix: for every type in {u8,u16,u32,u64,u128,u256,i8,i16,i32,i64,i128,felt252} and every \
                   operation that exists for it (+ - * / % div_rem, comparisons, min/max, & | ^ ~, sqrt, wide_mul, \
                   overflowing/wrapping/checked/saturating add sub mul, neg, pow, u256_inv_mod, u128 byte reverse, and \
                   into / try_into to every other type) a one-line Cairo function is compiled by the real pipeline and \
                   run in the VM; the decoded result (value, or panic vs value) is compared with a big-integer model. \
                   Operands: the full boundary cross product {MIN,MIN+1,MIN+2,-2..3,10,100,MAX-2..MAX,+-2^k,+-2^k+-1} \
                   plus seeded random operands (quick 150, thorough 10000 per case); ALL 65536 operand pairs for add, \
                   sub, mul on u8 and i8 (quick) and for every binary operation on u8 and i8 (thorough) - see the set \
                   ops_exhaustive_over_8_bit_operands. Non-trivial = distinct (type, op, operand vector) compared. Plus the bounded-int family: bounded_int_div_rem of every unsigned type by 27 constants (1 .. 2^128-1, dense around 2^123..2^128) and bounded_int_constrain of every integer type at the same boundaries; unary cases run on every 2^k, 2^k+-1 of the type and on multiples of the constant incl. the largest quotient. A VM error on an honest run is a violation.",
            floor: |t| t.pick(50_000, 1_000_000),
            shards: |_| 1,
            crash_is_violation: false,
            assumptions: &[
                "the model is ordinary integer arithmetic: checked operators panic iff the result leaves the type's range, signed / and % truncate toward zero, felt252 arithmetic is mod P",
                "panic data is not compared here (C01 does), only panic-vs-value and the value",
            ],
            worker_timeout_s: |t| t.pick(1500, 5 * 3600),
            rayon_threads: 16,
        },
        "C05" => Spec {
            id: "C05",
            level: "exploration",
            rule: "Configuration lattice (quick 7, thorough 20 points): optimizations disabled; enabled x inlining \
                   {Default, Avoid, InlineSmallFunctions(0|1|20|200|5000)} x skip_const_folding x numeric-match threshold \
                   {unset,1,2,1000} x {linear, legacy} metadata solvers. (a) Every function `test::*` of every e2e / \
                   examples snippet is compiled under every configuration and run on inputs generated from the Sierra \
                   types; results decoded by Sierra type (value) or panic data are compared with the optimizations- \
                   disabled baseline; out-of-gas on one side only is inconclusive. (b) The whole corelib test suite is \
                   compiled and run under 3 (thorough: all linear) configurations and every test's verdict and panic \
                   data compared. Hook H2 reports which optimization phases changed the IR (counters hook.*). \
                   Non-trivial = distinct (snippet, function, argument vector) / (corelib test, configuration) compared.",
            floor: |t| t.pick(2000, 20_000),
            shards: |_| 1,
            crash_is_violation: false,
            assumptions: &["values containing dictionaries or builtins are not compared by content (counted as not comparable)"],
            worker_timeout_s: |t| t.pick(1800, 6 * 3600),
            rayon_threads: 16,
        },
        "C07" => Spec {
            id: "C07",
            level: "exploration",
            rule: "Seeded typed expressions (depth 1-3) over u8..u128, i8..i128, felt252 and bool: + - * / % & | ^, negation, \
                   comparisons, && || !, if, block-let, tuple destructuring, struct member access, const fn calls, \
                   into / try_into().unwrap() conversions, match on an enum; operands from the types' boundary sets and \
                   random values. Each expression e[v] appears as `const C: T = e[v]` (+ getter), as its run-time twin \
                   `fn f(x..) -> T { e[x..] }` called with v as opaque arguments, and as `fn g() -> T { e[v] }` compiled \
                   with constant folding on and off. Oracle: const accepted => getter value == f(v) and f(v) does not \
                   panic; const rejected by evaluation (range / division by zero / failed calculation) => f(v) panics; \
                   g() == f(v) under both folding settings. Expressions rejected for other reasons are outside the \
                   domain (counted). Non-trivial = distinct (type, expression with operands) fully compared.",
            floor: |t| t.pick(800, 20_000),
            shards: |_| 1,
            crash_is_violation: false,
            assumptions: &["the run-time evaluation of the same expression by the compiled program is the reference (no model of mine is involved)"],
            worker_timeout_s: |t| t.pick(1500, 5 * 3600),
            rayon_threads: 16,
        },
        "C03" => Spec {
            id: "C03",
            level: "fault_enumeration",
            rule: "Programs: operator wrappers for every integer type (arithmetic, division, comparison, sqrt, wide_mul, \
                   overflowing ops, inverse, pow, downcasts) and every e2e / examples snippet; 3 (thorough 10) in-range \
                   argument vectors per function. For each honest run every CoreHint occurrence is recorded (first 2 \
                   per static site), and for each occurrence one faulty run is executed per fault class: per output \
                   cell flip/2 (booleans), +1, -1, field negation, +2^128, random felt (thorough: +2^64, -2^128, zero); \
                   pointers aliased to the execution segment, the program segment, the previous segment, or a felt; \
                   coordinated alternative decompositions for DivMod, WideMul128, LinearSplit, Uint256DivMod limb \
                   carries, and for RandomEcPoint the negated point, an off-curve point, +-generator. The fault is \
                   pre-written into the hint's output cells (memory is write-once). Verdict: VM error = rejected; \
                   success with the same decoded result = benign; success with a different result = VIOLATION. \
                   Non-trivial = distinct (run, static hint site, hint kind, fault class) actually injected.",
            floor: |t| t.pick(3000, 25_000),
            shards: |_| 1,
            crash_is_violation: false,
            assumptions: &[
                "faults are single-occurrence: two coordinated lies at different hints are not explored",
                "syscall, cheatcode and entry-code (external) hints are not faulted",
                "cells already set before the hint runs are not controlled by the prover at that point (counted as not_injectable)",
            ],
            worker_timeout_s: |t| t.pick(1800, 6 * 3600),
            rayon_threads: 16,
        },
        "C01" => Spec {
            id: "C01",
            level: "exploration",
            rule: "Seeded well-typed, ownership-correct programs of a Cairo subset (1-5 functions in a call DAG, structs \
                   and enums with derived Copy/Drop/Serde/PartialEq, Option, tuples, arrays with append/pop_front/at/len, \
                   ref and snapshot array parameters, checked + - * / % & | ^ on all integer types, felt252 arithmetic, \
                   comparisons, && || !, if / match on enums, options and integer literals, blocks, while/for/loop with \
                   break, early return, assert, into / try_into().unwrap(), derived == and Serde serialization) are \
                   compiled by the real pipeline under 3 configurations (default, optimizations disabled, one random \
                   lattice point) and run on 8 (thorough 25) argument vectors; the decoded result - value by Sierra \
                   type, or exact panic data - is compared with an independent big-integer interpreter of the \
                   generator's AST. Non-trivial = distinct (program, argument vector, configuration) whose run has >= \
                   30 body steps. Later additions: nested struct members and member paths, compound and member assignment, if-let, closures, snapshot/desnap, fixed-size array destructuring, continue, mid-expression assignment (outside aggregate literals), idiom functions (aggregate rebuild, enum re-wrap), a loop idiom comparing a struct while assigning a nested member, comparisons / arithmetic against 0, 1, -1, MIN, MAX.",
            floor: |t| t.pick(1500, 30_000),
            shards: |_| 1,
            crash_is_violation: false,
            assumptions: &[
                "the reference interpreter follows the language reference and the panic strings documented in the corelib ('<ty>_add Overflow', 'Division by 0', 'Index out of bounds', 'Option::unwrap failed.', ...)",
                "programs the front end rejects are generator disagreements (inconclusive), never violations",
            ],
            worker_timeout_s: |t| t.pick(1800, 6 * 3600),
            rayon_threads: 16,
        },
        "C08" => Spec {
            id: "C08",
            level: "exploration",
            rule: "(a) Every generated program of C01's generator that has no error diagnostics must produce Sierra, \
                   pass ProgramRegistry + metadata + Sierra->CASM under EVERY configuration of the lattice (quick 7, \
                   thorough 20) without error or panic, and hook H2 must see the lowering validator accept the IR \
                   after every optimization phase. (b) Each program is re-submitted with one injected ownership \
                   violation - a use of an array right after it was moved (at every move site the generator recorded), \
                   a value of a struct without Drop that goes out of scope, a double move - and must then have an \
                   error diagnostic. Non-trivial = distinct error-free program compiled under all configurations + \
                   distinct injected programs. (c) An ownership matrix: 7 value kinds x 6 move forms x 18 control-flow shapes x 4 use forms, 12 undropped-value shapes and 16 hand-written shapes; every violating program must be rejected and its valid twin must compile to CASM.",
            floor: |t| t.pick(150, 2500),
            shards: |_| 1,
            crash_is_violation: false,
            assumptions: &["programs the front end rejects before injection are generator disagreements (inconclusive)"],
            worker_timeout_s: |t| t.pick(1800, 6 * 3600),
            rayon_threads: 16,
        },
        _ => return None,
    })
}

/// Sanitizer leg of a check's thorough tier: (sanitizer, number of shards the leg's single worker
/// pretends to be one of - i.e. the fraction of the quick workload it runs).
pub fn sanitizer_leg(id: &str) -> Option<(&'static str, usize)> {
    match id {
        "C12" => Some(("tsan", 1)),
        "C09" => Some(("asan", 16)),
        "C13" => Some(("asan", 16)),
        _ => None,
    }
}

/// Checks whose thorough tier also runs /verif/miri_leg.sh.
pub fn miri_leg(id: &str) -> bool {
    matches!(id, "C12" | "C13")
}

pub fn worker_stack_bytes(id: &str) -> usize {
    // Sanitizer instrumentation inflates stack frames; stack depth is judged by the normal build.
    if std::env::var("VERIF_SANITIZER_LEG").is_ok() {
        return 1024 * MIB;
    }
    match id {
        // The property is about ordinary nesting on the real tools' main thread.
        "C09" | "C10" => 8 * MIB,
        _ => 256 * MIB,
    }
}

pub fn worker(id: &str, ctx: &mut Ctx) {
    match id {
        "C09" => crate::frontend::c09_worker(ctx),
        "C10" => crate::frontend::c10_worker(ctx),
        "C02" | "C04" | "C17" => crate::execchecks::exec_worker(ctx, id),
        "C14" | "C15" => crate::sierra_mut::sierra_worker(ctx, id),
        "C01" | "C08" => crate::gencheck::gen_worker(ctx, id),
        "C03" => crate::hintfault::c03_worker(ctx),
        "C05" => crate::metamorph::c05_worker(ctx),
        "C06" => crate::opmatrix::c06_worker(ctx),
        "C07" => crate::constcheck::c07_worker(ctx),
        "C11" => crate::fmtchecks::c11_worker(ctx),
        "C12" => crate::dbscen::c12_worker(ctx),
        "C13" => crate::dbscen::c13_worker(ctx),
        "C20" => crate::dbscen::c20_worker(ctx),
        "C16" => crate::casm_ref::c16_worker(ctx),
        "C18" => crate::serde_checks::c18_worker(ctx),
        "C19" => crate::classes::c19_worker(ctx),
        _ => panic!("no worker for {id}"),
    }
}

/// Replays a stored case: `Ok(None)` = held, `Ok(Some(desc))` = violated, `Err` = inconclusive.
pub fn replay(id: &str, case: &Value) -> Result<Option<String>, String> {
    match id {
        "C09" => crate::frontend::c09_replay(case),
        "C10" => crate::frontend::c10_replay(case),
        "C02" | "C04" | "C17" => crate::execchecks::exec_replay(id, case),
        "C14" | "C15" => crate::sierra_mut::sierra_replay(id, case),
        "C01" | "C08" => crate::gencheck::gen_replay(id, case),
        "C03" => crate::hintfault::c03_replay(case),
        "C05" => crate::metamorph::c05_replay(case),
        "C06" => crate::opmatrix::c06_replay(case),
        "C07" => crate::constcheck::c07_replay(case),
        "C11" => crate::fmtchecks::c11_replay(case),
        "C12" => crate::dbscen::c12_replay(case),
        "C13" => crate::dbscen::c13_replay(case),
        "C20" => crate::dbscen::c20_replay(case),
        "C16" => crate::casm_ref::c16_replay(case),
        "C18" => crate::serde_checks::c18_replay(case),
        "C19" => crate::classes::c19_replay(case),
        _ => Err(format!("no replay for {id}")),
    }
}

#[allow(dead_code)]
fn _t(_: Tier) {}
