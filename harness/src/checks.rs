//! Registry of the checks: static description, worker entry point and replay per property.

use serde_json::Value;

use crate::report::{Ctx, Spec, Tier};

const MIB: usize = 1 << 20;

pub fn spec(id: &str) -> Option<Spec> {
    Some(match id {
        "C09" => Spec {
            id: "C09",
            level: "exploration",
            rule: "Inputs are seeded byte/token/subtree-level mutants and token soups of the repo's .cairo files \
                   (16 mutation kinds, nesting <= 200). Every input goes through parse, tree walk, formatting \
                   under 3 configurations; every 8th also through syntax+semantic+lowering diagnostics on a \
                   RootDatabase (Starknet plugin on odd shards) with span checks. Non-trivial = distinct input \
                   text that produced >= 1 parser diagnostic AND reached semantic analysis with >= 1 module \
                   item recognised.",
            floor: |t| t.pick(150, 5000),
            shards: |_| 16,
            crash_is_violation: true,
            assumptions: &[
                "worker threads have the 8 MiB stack of the real tools' main thread",
                "watchdog expiry is inconclusive, not a violation",
                "hook H5 turns a parser loop without token consumption into a panic",
            ],
            worker_timeout_s: |t| t.pick(900, 4 * 3600),
        },
        "C10" => Spec {
            id: "C10",
            level: "exploration",
            rule: "Every .cairo file of the repo plus seeded byte/token/subtree-level mutants and token soups \
                   (same generator as C09) is parsed and its tree walked through the public SyntaxNode API: \
                   leaf concatenation == input, offsets/widths/spans consistent, leaf text == input[span], \
                   get_text == input[span]. Non-trivial = distinct input text for which the parser reported \
                   >= 1 diagnostic (error-recovery path taken), plus the unmutated files.",
            floor: |t| t.pick(1500, 50_000),
            shards: |_| 16,
            crash_is_violation: true,
            assumptions: &["the file content stored in the parser database is the input text"],
            worker_timeout_s: |t| t.pick(900, 4 * 3600),
        },
        _ => return None,
    })
}

pub fn worker_stack_bytes(id: &str) -> usize {
    match id {
        // The property is about ordinary nesting on the real tools' main thread.
        "C09" | "C10" => 8 * MIB,
        _ => 256 * MIB,
    }
}

pub fn worker(id: &str, ctx: &mut Ctx) {
    match id {
        "C09" => crate::frontend::c09_worker(ctx),
        "C10" => crate::frontend::c10_worker(ctx),
        _ => panic!("no worker for {id}"),
    }
}

/// Replays a stored case: `Ok(None)` = held, `Ok(Some(desc))` = violated, `Err` = inconclusive.
pub fn replay(id: &str, case: &Value) -> Result<Option<String>, String> {
    match id {
        "C09" => crate::frontend::c09_replay(case),
        "C10" => crate::frontend::c10_replay(case),
        _ => Err(format!("no replay for {id}")),
    }
}

#[allow(dead_code)]
fn _t(_: Tier) {}
