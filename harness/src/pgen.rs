//! W1: a typed random generator for a Cairo subset with an independent big-integer reference
//! evaluator. Programs are well-typed and ownership-correct by construction. The evaluator never
//! looks at Sierra, lowering or CASM: it interprets the generator's own AST.

use std::collections::BTreeMap;

use num_bigint::BigInt;
use num_traits::{One, Signed, ToPrimitive, Zero};

use crate::opmatrix::{TYPES, Ty as ITy, TyKind};
use crate::rng::Rng;
use crate::values::{Val, felt_prime, to_felt};

// ---------------------------------------------------------------------------------------------
// Types and values.

#[derive(Clone, Debug, PartialEq, Eq)]
pub enum T {
    Int(ITy),
    Felt,
    Bool,
    Struct(usize),
    Enum(usize),
    Opt(Box<T>),
    Tuple(Vec<T>),
    Arr(Box<T>),
}

#[derive(Clone, Debug, PartialEq, Eq)]
pub enum V {
    Int(BigInt),
    Felt(BigInt),
    Bool(bool),
    Struct(Vec<V>),
    Enum(usize, Option<Box<V>>),
    Opt(Option<Box<V>>),
    Tuple(Vec<V>),
    Arr(Vec<V>),
}

#[derive(Clone, Debug)]
pub struct StructDef {
    pub fields: Vec<T>,
}
#[derive(Clone, Debug)]
pub struct EnumDef {
    pub variants: Vec<Option<T>>,
}

#[derive(Clone, Debug, PartialEq)]
pub enum ParamMode {
    Value,
    Ref,
    Snap,
}

#[derive(Clone, Debug)]
pub struct FnDef {
    pub name: String,
    pub params: Vec<(String, T, ParamMode)>,
    pub ret: T,
    pub body: Vec<S>,
    pub tail: E,
}

#[derive(Clone, Debug)]
pub struct Program {
    pub structs: Vec<StructDef>,
    pub enums: Vec<EnumDef>,
    pub fns: Vec<FnDef>,
}

impl T {
    pub fn is_copy(&self) -> bool {
        match self {
            T::Arr(_) => false,
            T::Opt(t) => t.is_copy(),
            T::Tuple(ts) => ts.iter().all(|t| t.is_copy()),
            _ => true,
        }
    }
    pub fn render(&self) -> String {
        match self {
            T::Int(t) => t.name.to_string(),
            T::Felt => "felt252".into(),
            T::Bool => "bool".into(),
            T::Struct(i) => format!("S{i}"),
            T::Enum(i) => format!("E{i}"),
            T::Opt(t) => format!("Option<{}>", t.render()),
            T::Tuple(ts) => {
                if ts.len() == 1 {
                    format!("({},)", ts[0].render())
                } else {
                    format!("({})", ts.iter().map(|t| t.render()).collect::<Vec<_>>().join(", "))
                }
            }
            T::Arr(t) => format!("Array<{}>", t.render()),
        }
    }
}

// ---------------------------------------------------------------------------------------------
// AST.

#[derive(Clone, Debug)]
pub enum E {
    Lit(T, V),
    Var(String),
    Bin(&'static str, T, Box<E>, Box<E>),
    Neg(T, Box<E>),
    Not(Box<E>),
    And(Box<E>, Box<E>),
    Or(Box<E>, Box<E>),
    If(Box<E>, Box<E>, Box<E>),
    Call(usize, Vec<Arg>),
    StructNew(usize, Vec<E>),
    Field(Box<E>, usize),
    EnumNew(usize, usize, Option<Box<E>>),
    MatchEnum(usize, Box<E>, Vec<(Option<String>, E)>),
    Some_(Box<E>),
    None_(T),
    MatchOpt(Box<E>, String, Box<E>, Box<E>),
    /// `if let Option::Some(x) = e { a } else { b }`
    IfLet(Box<E>, String, Box<E>, Box<E>),
    /// `{ let cl = |p: T| body; cl(arg) }` - the body may read copyable variables in scope.
    Closure(String, T, Box<E>, Box<E>),
    /// `*(@e)` on a copyable value.
    SnapDesnap(Box<E>),
    /// `{ x = e; x }`: assigns a mutable variable in the middle of an expression.
    AssignBlock(String, Box<E>),
    TupleNew(Vec<E>),
    /// `arr.len()`
    Len(String),
    /// `*arr.at(i)`
    At(String, Box<E>),
    /// `(e).into()` to the given wider type / felt.
    Into_(T, Box<E>),
    /// `(e).try_into().unwrap()`
    TryInto(T, Box<E>),
    /// `s1 == s2` on a struct / enum through derived PartialEq.
    EqDerived(Box<E>, Box<E>),
    /// Serializes the expression with derived Serde and returns the felt array.
    Serialize(T, Box<E>),
    /// `array![e..]`
    ArrNew(T, Vec<E>),
    /// `match <int expr> { 0 => e0, 1 => e1, _ => d }`
    MatchInt(Box<E>, Vec<E>, Box<E>),
    /// Block with statements and a tail value.
    Block(Vec<S>, Box<E>),
}

#[derive(Clone, Debug)]
pub enum Arg {
    Value(E),
    Ref(String),
    Snap(String),
}

#[derive(Clone, Debug)]
pub enum S {
    Let(String, T, bool, E),
    LetTuple(Vec<String>, Vec<T>, E),
    Assign(String, E),
    OpAssign(String, &'static str, T, E),
    /// `x += e;` (the compound form of OpAssign)
    CompoundAssign(String, &'static str, T, E),
    /// `s.f<k>[.f<j>..] = e;`
    FieldAssign(String, Vec<usize>, E),
    /// `s.f<k>[.f<j>..] += e;`
    FieldCompound(String, Vec<usize>, &'static str, T, E),
    /// `let [a, b, ..] = [e1, e2, ..];`
    LetFixed(Vec<String>, Vec<E>),
    /// `if c { continue; }` - directly inside a `for` body only.
    ContinueIf(E),
    Append(String, E),
    /// `let x = arr.pop_front();`
    PopFront(String, String, T),
    If(E, Vec<S>, Vec<S>),
    /// `let mut i: u32 = 0; while i < k { body; i += 1; }`
    While(String, u32, Vec<S>),
    /// `for i in 0..k { body }`
    For(String, u32, Vec<S>),
    /// `loop { if cond { break; } body }` guarded by a fuel variable.
    Loop(String, u32, E, Vec<S>),
    ReturnIf(E, E),
    Assert(E, String),
    Expr(E),
}

// ---------------------------------------------------------------------------------------------
// Rendering.

fn short_string_felt(s: &str) -> BigInt {
    BigInt::from_bytes_be(num_bigint::Sign::Plus, s.as_bytes())
}

pub fn render_lit(t: &T, v: &V) -> String {
    match (t, v) {
        (T::Int(it), V::Int(x)) => {
            if x.is_negative() { format!("(-{}_{})", -x, it.name) } else { format!("{x}_{}", it.name) }
        }
        (T::Felt, V::Felt(x)) => format!("{x}"),
        (T::Bool, V::Bool(b)) => b.to_string(),
        _ => panic!("literal of non-scalar type"),
    }
}

impl E {
    pub fn render(&self, p: &Program) -> String {
        match self {
            E::Lit(t, v) => render_lit(t, v),
            E::Var(n) => n.clone(),
            E::Bin(op, _, a, b) => format!("({} {op} {})", a.render(p), b.render(p)),
            E::Neg(_, a) => format!("(-{})", a.render(p)),
            E::Not(a) => format!("(!{})", a.render(p)),
            E::And(a, b) => format!("({} && {})", a.render(p), b.render(p)),
            E::Or(a, b) => format!("({} || {})", a.render(p), b.render(p)),
            E::If(c, a, b) => format!("(if {} {{ {} }} else {{ {} }})", c.render(p), a.render(p), b.render(p)),
            E::Call(f, args) => format!(
                "{}({})",
                p.fns[*f].name,
                args.iter()
                    .map(|a| match a {
                        Arg::Value(e) => e.render(p),
                        Arg::Ref(n) => format!("ref {n}"),
                        Arg::Snap(n) => format!("@{n}"),
                    })
                    .collect::<Vec<_>>()
                    .join(", ")
            ),
            E::StructNew(s, fs) => format!("(S{s} {{ {} }})", fs.iter().enumerate().map(|(i, f)| format!("f{i}: {}", f.render(p))).collect::<Vec<_>>().join(", ")),
            E::Field(e, i) => format!("{}.f{i}", e.render(p)),
            E::EnumNew(en, v, payload) => match payload {
                Some(e) => format!("E{en}::V{v}({})", e.render(p)),
                None => format!("E{en}::V{v}"),
            },
            E::MatchEnum(en, e, arms) => format!(
                "(match {} {{ {} }})",
                e.render(p),
                arms.iter().enumerate().map(|(i, (b, a))| match b {
                    Some(n) => format!("E{en}::V{i}({n}) => {},", a.render(p)),
                    None => format!("E{en}::V{i} => {},", a.render(p)),
                }).collect::<Vec<_>>().join(" ")
            ),
            E::Some_(e) => format!("Option::Some({})", e.render(p)),
            E::None_(t) => format!("Option::<{}>::None", t.render()),
            E::MatchOpt(e, n, a, b) => format!("(match {} {{ Option::Some({n}) => {}, Option::None => {}, }})", e.render(p), a.render(p), b.render(p)),
            E::IfLet(e, n, a, b) => format!("(if let Option::Some({n}) = {} {{ {} }} else {{ {} }})", e.render(p), a.render(p), b.render(p)),
            E::Closure(pn, pt, body, arg) => format!("({{ let cl_{pn} = |{pn}: {}| {}; cl_{pn}({}) }})", pt.render(), body.render(p), arg.render(p)),
            E::SnapDesnap(e) => format!("(*(@({})))", e.render(p)),
            E::AssignBlock(n, e) => format!("({{ {n} = {}; {n} }})", e.render(p)),
            E::TupleNew(es) => {
                if es.len() == 1 {
                    format!("({},)", es[0].render(p))
                } else {
                    format!("({})", es.iter().map(|e| e.render(p)).collect::<Vec<_>>().join(", "))
                }
            }
            E::Len(a) => format!("{a}.len()"),
            E::At(a, i) => format!("(*{a}.at({}))", i.render(p)),
            E::Into_(t, e) => format!("Into::<_, {}>::into({})", t.render(), e.render(p)),
            E::TryInto(t, e) => format!("TryInto::<_, {}>::try_into({}).unwrap()", t.render(), e.render(p)),
            E::EqDerived(a, b) => format!("({} == {})", a.render(p), b.render(p)),
            E::Serialize(_, e) => format!("({{ let mut ser_out: Array<felt252> = array![]; let ser_v = {}; ser_v.serialize(ref ser_out); ser_out }})", e.render(p)),
            E::ArrNew(_, es) => format!("array![{}]", es.iter().map(|e| e.render(p)).collect::<Vec<_>>().join(", ")),
            E::MatchInt(e, arms, d) => format!(
                "(match {} {{ {} _ => {}, }})",
                e.render(p),
                arms.iter().enumerate().map(|(i, a)| format!("{i} => {},", a.render(p))).collect::<Vec<_>>().join(" "),
                d.render(p)
            ),
            E::Block(ss, e) => format!("({{ {} {} }})", ss.iter().map(|s| s.render(p, 0)).collect::<Vec<_>>().join(" "), e.render(p)),
        }
    }
}

impl S {
    pub fn render(&self, p: &Program, ind: usize) -> String {
        let pad = "    ".repeat(ind);
        let block = |ss: &Vec<S>| ss.iter().map(|s| s.render(p, ind + 1)).collect::<Vec<_>>().join("\n");
        match self {
            S::Let(n, t, m, e) => format!("{pad}let {}{n}: {} = {};", if *m { "mut " } else { "" }, t.render(), e.render(p)),
            S::LetTuple(ns, _, e) => format!("{pad}let ({}) = {};", ns.join(", "), e.render(p)),
            S::Assign(n, e) => format!("{pad}{n} = {};", e.render(p)),
            S::OpAssign(n, op, _, e) => format!("{pad}{n} = {n} {op} {};", e.render(p)),
            S::CompoundAssign(n, op, _, e) => format!("{pad}{n} {op}= {};", e.render(p)),
            S::FieldAssign(n, path, e) => format!("{pad}{n}{} = {};", path.iter().map(|k| format!(".f{k}")).collect::<String>(), e.render(p)),
            S::FieldCompound(n, path, op, _, e) => format!("{pad}{n}{} {op}= {};", path.iter().map(|k| format!(".f{k}")).collect::<String>(), e.render(p)),
            S::LetFixed(ns, es) => format!("{pad}let [{}] = [{}];", ns.join(", "), es.iter().map(|e| e.render(p)).collect::<Vec<_>>().join(", ")),
            S::ContinueIf(c) => format!("{pad}if {} {{ continue; }}", c.render(p)),
            S::Append(a, e) => format!("{pad}{a}.append({});", e.render(p)),
            S::PopFront(x, a, _) => format!("{pad}let {x} = {a}.pop_front();"),
            S::If(c, a, b) => {
                if b.is_empty() {
                    format!("{pad}if {} {{\n{}\n{pad}}}", c.render(p), block(a))
                } else {
                    format!("{pad}if {} {{\n{}\n{pad}}} else {{\n{}\n{pad}}}", c.render(p), block(a), block(b))
                }
            }
            S::While(i, k, body) => format!("{pad}let mut {i}: u32 = 0;\n{pad}while {i} < {k} {{\n{}\n{pad}    {i} += 1;\n{pad}}}", block(body)),
            S::For(i, k, body) => format!("{pad}for {i} in 0..{k}_u32 {{\n{}\n{pad}}}", block(body)),
            S::Loop(f, k, c, body) => format!("{pad}let mut {f}: u32 = {k};\n{pad}loop {{\n{pad}    if {f} == 0 || {} {{ break; }}\n{pad}    {f} -= 1;\n{}\n{pad}}}", c.render(p), block(body)),
            S::ReturnIf(c, e) => format!("{pad}if {} {{ return {}; }}", c.render(p), e.render(p)),
            S::Assert(c, m) => format!("{pad}assert({}, '{m}');", c.render(p)),
            S::Expr(e) => format!("{pad}let _ = {};", e.render(p)),
        }
    }
}

pub fn render_program(p: &Program) -> String {
    let mut s = String::new();
    for (i, sd) in p.structs.iter().enumerate() {
        s.push_str(&format!("#[derive(Copy, Drop, Serde, PartialEq)]\nstruct S{i} {{ {} }}\n", sd.fields.iter().enumerate().map(|(k, t)| format!("f{k}: {}", t.render())).collect::<Vec<_>>().join(", ")));
    }
    for (i, ed) in p.enums.iter().enumerate() {
        s.push_str(&format!("#[derive(Copy, Drop, Serde, PartialEq)]\nenum E{i} {{ {} }}\n", ed.variants.iter().enumerate().map(|(k, t)| match t { Some(t) => format!("V{k}: {}", t.render()), None => format!("V{k}") }).collect::<Vec<_>>().join(", ")));
    }
    for f in &p.fns {
        let params: Vec<String> = f
            .params
            .iter()
            .map(|(n, t, m)| match m {
                ParamMode::Value => format!("{}{n}: {}", if t.is_copy() { "" } else { "mut " }, t.render()),
                ParamMode::Ref => format!("ref {n}: {}", t.render()),
                ParamMode::Snap => format!("{n}: @{}", t.render()),
            })
            .collect();
        s.push_str(&format!("fn {}({}) -> {} {{\n", f.name, params.join(", "), f.ret.render()));
        for st in &f.body {
            s.push_str(&st.render(p, 1));
            s.push('\n');
        }
        s.push_str(&format!("    {}\n}}\n", f.tail.render(p)));
    }
    s
}

// ---------------------------------------------------------------------------------------------
// Reference evaluator.

#[derive(Debug, Clone, PartialEq)]
pub enum Stop {
    Panic(Vec<BigInt>),
    Return(V),
    Break,
    Continue,
    /// The evaluator ran out of its own step budget (never expected: loops are bounded).
    Fuel,
}

pub struct Eval<'a> {
    pub p: &'a Program,
    pub steps: u64,
}

type Env = Vec<(String, V)>;

fn lookup<'e>(env: &'e mut Env, n: &str) -> &'e mut V {
    env.iter_mut().rev().find(|(k, _)| k == n).map(|(_, v)| v).unwrap_or_else(|| panic!("evaluator: unbound variable {n}"))
}

fn member_mut<'v>(v: &'v mut V, path: &[usize]) -> &'v mut V {
    let mut cur = v;
    for k in path {
        cur = match cur {
            V::Struct(fs) => &mut fs[*k],
            _ => panic!("evaluator: member path into a non-struct"),
        };
    }
    cur
}

fn panic_msg(s: &str) -> Stop {
    Stop::Panic(vec![short_string_felt(s)])
}

impl Eval<'_> {
    fn tick(&mut self) -> Result<(), Stop> {
        self.steps += 1;
        if self.steps > 2_000_000 { Err(Stop::Fuel) } else { Ok(()) }
    }

    fn arith(&self, op: &str, t: &T, a: &V, b: &V) -> Result<V, Stop> {
        match (t, a, b) {
            (T::Felt, V::Felt(x), V::Felt(y)) => {
                let p = felt_prime();
                let r = match op {
                    "+" => x + y,
                    "-" => x - y,
                    "*" => x * y,
                    _ => panic!("felt op {op}"),
                };
                let mut r = r % &p;
                if r.is_negative() {
                    r += &p;
                }
                Ok(V::Felt(r))
            }
            (T::Int(it), V::Int(x), V::Int(y)) => {
                let n = it.name;
                let signed = it.kind == TyKind::Signed;
                let r = match op {
                    "+" => x + y,
                    "-" => x - y,
                    "*" => x * y,
                    "/" | "%" => {
                        if y.is_zero() {
                            return Err(panic_msg("Division by 0"));
                        }
                        let q = x.abs() / y.abs();
                        let q = if x.is_negative() != y.is_negative() { -q } else { q };
                        if !it.contains(&q) {
                            return Err(panic_msg("attempt to divide with overflow"));
                        }
                        if op == "/" { q } else { x - &q * y }
                    }
                    "&" => x & y,
                    "|" => x | y,
                    "^" => x ^ y,
                    _ => panic!("int op {op}"),
                };
                if it.contains(&r) {
                    return Ok(V::Int(r));
                }
                let which = match op {
                    "+" => "add",
                    "-" => "sub",
                    _ => "mul",
                };
                let dir = if signed && op != "*" && r < it.min() { "Underflow" } else { "Overflow" };
                Err(panic_msg(&format!("{n}_{which} {dir}")))
            }
            _ => panic!("arith on {a:?} {b:?}"),
        }
    }

    fn cmp(&self, op: &str, a: &V, b: &V) -> bool {
        let key = |v: &V| match v {
            V::Int(x) | V::Felt(x) => x.clone(),
            V::Bool(b) => BigInt::from(*b as u8),
            _ => panic!("cmp on {v:?}"),
        };
        let (x, y) = (key(a), key(b));
        match op {
            "==" => x == y,
            "!=" => x != y,
            "<" => x < y,
            "<=" => x <= y,
            ">" => x > y,
            ">=" => x >= y,
            _ => panic!("cmp op {op}"),
        }
    }

    pub fn serialize(&self, t: &T, v: &V, out: &mut Vec<V>) {
        match (t, v) {
            (T::Int(_), V::Int(x)) => out.push(V::Felt(to_felt(x).to_bigint())),
            (T::Felt, V::Felt(x)) => out.push(V::Felt(x.clone())),
            (T::Bool, V::Bool(b)) => out.push(V::Felt(BigInt::from(*b as u8))),
            (T::Struct(s), V::Struct(fs)) => {
                for (ft, fv) in self.p.structs[*s].fields.iter().zip(fs) {
                    self.serialize(ft, fv, out);
                }
            }
            (T::Enum(e), V::Enum(k, payload)) => {
                out.push(V::Felt(BigInt::from(*k)));
                if let (Some(pt), Some(pv)) = (&self.p.enums[*e].variants[*k], payload) {
                    self.serialize(pt, pv, out);
                }
            }
            (T::Opt(it), V::Opt(o)) => match o {
                Some(x) => {
                    out.push(V::Felt(BigInt::zero()));
                    self.serialize(it, x, out);
                }
                None => out.push(V::Felt(BigInt::one())),
            },
            (T::Tuple(ts), V::Tuple(vs)) => {
                for (tt, tv) in ts.iter().zip(vs) {
                    self.serialize(tt, tv, out);
                }
            }
            (T::Arr(et), V::Arr(vs)) => {
                out.push(V::Felt(BigInt::from(vs.len())));
                for x in vs {
                    self.serialize(et, x, out);
                }
            }
            _ => panic!("serialize {t:?} {v:?}"),
        }
    }

    pub fn expr(&mut self, e: &E, env: &mut Env) -> Result<V, Stop> {
        self.tick()?;
        Ok(match e {
            E::Lit(_, v) => v.clone(),
            E::Var(n) => lookup(env, n).clone(),
            E::Bin(op, t, a, b) => {
                let x = self.expr(a, env)?;
                let y = self.expr(b, env)?;
                if matches!(*op, "==" | "!=" | "<" | "<=" | ">" | ">=") {
                    V::Bool(self.cmp(op, &x, &y))
                } else {
                    self.arith(op, t, &x, &y)?
                }
            }
            E::Neg(t, a) => {
                let x = self.expr(a, env)?;
                match (t, x) {
                    (T::Felt, V::Felt(x)) => V::Felt(if x.is_zero() { x } else { felt_prime() - x }),
                    (T::Int(it), V::Int(x)) => {
                        let r = -x;
                        if !it.contains(&r) {
                            return Err(panic_msg(&format!("{}_neg Underflow", it.name)));
                        }
                        V::Int(r)
                    }
                    _ => panic!("neg"),
                }
            }
            E::Not(a) => match self.expr(a, env)? {
                V::Bool(b) => V::Bool(!b),
                _ => panic!("not"),
            },
            E::And(a, b) => match self.expr(a, env)? {
                V::Bool(false) => V::Bool(false),
                _ => self.expr(b, env)?,
            },
            E::Or(a, b) => match self.expr(a, env)? {
                V::Bool(true) => V::Bool(true),
                _ => self.expr(b, env)?,
            },
            E::If(c, a, b) => match self.expr(c, env)? {
                V::Bool(true) => self.expr(a, env)?,
                _ => self.expr(b, env)?,
            },
            E::Call(f, args) => {
                let def = &self.p.fns[*f];
                let mut vals = vec![];
                for a in args {
                    vals.push(match a {
                        Arg::Value(e) => self.expr(e, env)?,
                        Arg::Ref(n) | Arg::Snap(n) => lookup(env, n).clone(),
                    });
                }
                let mut fenv: Env = def.params.iter().map(|(n, _, _)| n.clone()).zip(vals).collect();
                let r = self.call(def, &mut fenv);
                // `ref` parameters are written back, also when the callee returned early.
                for (a, (n, _, m)) in args.iter().zip(def.params.iter()) {
                    if let (Arg::Ref(outer), ParamMode::Ref) = (a, m) {
                        let v = lookup(&mut fenv, n).clone();
                        *lookup(env, outer) = v;
                    }
                }
                r?
            }
            E::StructNew(_, fs) => {
                let mut out = vec![];
                for f in fs {
                    out.push(self.expr(f, env)?);
                }
                V::Struct(out)
            }
            E::Field(e, i) => match self.expr(e, env)? {
                V::Struct(fs) => fs[*i].clone(),
                _ => panic!("field"),
            },
            E::EnumNew(_, k, payload) => V::Enum(*k, match payload {
                Some(e) => Some(Box::new(self.expr(e, env)?)),
                None => None,
            }),
            E::MatchEnum(_, e, arms) => match self.expr(e, env)? {
                V::Enum(k, payload) => {
                    let (bind, arm) = &arms[k];
                    if let (Some(n), Some(pv)) = (bind, payload) {
                        env.push((n.clone(), *pv));
                        let r = self.expr(arm, env);
                        env.pop();
                        r?
                    } else {
                        self.expr(arm, env)?
                    }
                }
                _ => panic!("match enum"),
            },
            E::Some_(e) => V::Opt(Some(Box::new(self.expr(e, env)?))),
            E::None_(_) => V::Opt(None),
            E::MatchOpt(e, n, a, b) => match self.expr(e, env)? {
                V::Opt(Some(x)) => {
                    env.push((n.clone(), *x));
                    let r = self.expr(a, env);
                    env.pop();
                    r?
                }
                V::Opt(None) => self.expr(b, env)?,
                _ => panic!("match opt"),
            },
            E::IfLet(e, n, a, b) => match self.expr(e, env)? {
                V::Opt(Some(x)) => {
                    env.push((n.clone(), *x));
                    let r = self.expr(a, env);
                    env.pop();
                    r?
                }
                V::Opt(None) => self.expr(b, env)?,
                _ => panic!("if let"),
            },
            E::Closure(pn, _, body, arg) => {
                let a = self.expr(arg, env)?;
                env.push((pn.clone(), a));
                let r = self.expr(body, env);
                env.pop();
                r?
            }
            E::SnapDesnap(e) => self.expr(e, env)?,
            E::AssignBlock(n, e) => {
                let v = self.expr(e, env)?;
                *lookup(env, n) = v.clone();
                v
            }
            E::TupleNew(es) => {
                let mut out = vec![];
                for x in es {
                    out.push(self.expr(x, env)?);
                }
                V::Tuple(out)
            }
            E::Len(a) => match lookup(env, a) {
                V::Arr(v) => V::Int(BigInt::from(v.len())),
                _ => panic!("len"),
            },
            E::At(a, i) => {
                let idx = match self.expr(i, env)? {
                    V::Int(x) => x,
                    _ => panic!("at idx"),
                };
                match lookup(env, a) {
                    V::Arr(v) => match idx.to_usize().and_then(|i| v.get(i)) {
                        Some(x) => x.clone(),
                        None => return Err(panic_msg("Index out of bounds")),
                    },
                    _ => panic!("at"),
                }
            }
            E::Into_(t, e) => match (t, self.expr(e, env)?) {
                (T::Felt, V::Int(x)) => V::Felt(to_felt(&x).to_bigint()),
                (T::Int(_), V::Int(x)) => V::Int(x),
                _ => panic!("into"),
            },
            E::TryInto(t, e) => match (t, self.expr(e, env)?) {
                (T::Int(it), V::Int(x)) => {
                    if it.contains(&x) { V::Int(x) } else { return Err(panic_msg("Option::unwrap failed.")) }
                }
                (T::Int(it), V::Felt(x)) => {
                    // Negative targets: the canonical representative P + v.
                    let x = if it.kind == TyKind::Signed && x > (felt_prime() >> 1) { x - felt_prime() } else { x };
                    if it.contains(&x) { V::Int(x) } else { return Err(panic_msg("Option::unwrap failed.")) }
                }
                _ => panic!("try_into"),
            },
            E::EqDerived(a, b) => {
                let x = self.expr(a, env)?;
                let y = self.expr(b, env)?;
                V::Bool(x == y)
            }
            E::Serialize(t, e) => {
                let v = self.expr(e, env)?;
                let mut out = vec![];
                self.serialize(t, &v, &mut out);
                V::Arr(out)
            }
            E::ArrNew(_, es) => {
                let mut out = vec![];
                for x in es {
                    out.push(self.expr(x, env)?);
                }
                V::Arr(out)
            }
            E::MatchInt(e, arms, d) => {
                let k = match self.expr(e, env)? {
                    V::Int(x) | V::Felt(x) => x,
                    _ => panic!("match int"),
                };
                match k.to_usize().and_then(|i| arms.get(i)) {
                    Some(a) => self.expr(a, env)?,
                    None => self.expr(d, env)?,
                }
            }
            E::Block(ss, t) => {
                let depth = env.len();
                let r = (|| {
                    self.block(ss, env)?;
                    self.expr(t, env)
                })();
                env.truncate(depth);
                r?
            }
        })
    }

    fn block(&mut self, ss: &[S], env: &mut Env) -> Result<(), Stop> {
        for s in ss {
            self.stmt(s, env)?;
        }
        Ok(())
    }

    fn scoped(&mut self, ss: &[S], env: &mut Env) -> Result<(), Stop> {
        let depth = env.len();
        let r = self.block(ss, env);
        env.truncate(depth);
        r
    }

    fn stmt(&mut self, s: &S, env: &mut Env) -> Result<(), Stop> {
        self.tick()?;
        match s {
            S::Let(n, _, _, e) => {
                let v = self.expr(e, env)?;
                env.push((n.clone(), v));
            }
            S::LetTuple(ns, _, e) => match self.expr(e, env)? {
                V::Tuple(vs) => {
                    for (n, v) in ns.iter().zip(vs) {
                        env.push((n.clone(), v));
                    }
                }
                _ => panic!("let tuple"),
            },
            S::Assign(n, e) => {
                let v = self.expr(e, env)?;
                *lookup(env, n) = v;
            }
            S::OpAssign(n, op, t, e) => {
                let cur = lookup(env, n).clone();
                let v = self.expr(e, env)?;
                let r = self.arith(op, t, &cur, &v)?;
                *lookup(env, n) = r;
            }
            S::CompoundAssign(n, op, t, e) => {
                // `x += e`: the right-hand side is evaluated, then the operation on the current value.
                let v = self.expr(e, env)?;
                let cur = lookup(env, n).clone();
                let r = self.arith(op, t, &cur, &v)?;
                *lookup(env, n) = r;
            }
            S::FieldAssign(n, path, e) => {
                let v = self.expr(e, env)?;
                *member_mut(lookup(env, n), path) = v;
            }
            S::FieldCompound(n, path, op, t, e) => {
                let v = self.expr(e, env)?;
                let cur = member_mut(lookup(env, n), path).clone();
                let r = self.arith(op, t, &cur, &v)?;
                *member_mut(lookup(env, n), path) = r;
            }
            S::LetFixed(ns, es) => {
                let mut vs = vec![];
                for e in es {
                    vs.push(self.expr(e, env)?);
                }
                for (n, v) in ns.iter().zip(vs) {
                    env.push((n.clone(), v));
                }
            }
            S::ContinueIf(c) => {
                if let V::Bool(true) = self.expr(c, env)? {
                    return Err(Stop::Continue);
                }
            }
            S::Append(a, e) => {
                let v = self.expr(e, env)?;
                match lookup(env, a) {
                    V::Arr(vs) => vs.push(v),
                    _ => panic!("append"),
                }
            }
            S::PopFront(x, a, _) => {
                let v = match lookup(env, a) {
                    V::Arr(vs) => {
                        if vs.is_empty() { V::Opt(None) } else { V::Opt(Some(Box::new(vs.remove(0)))) }
                    }
                    _ => panic!("pop_front"),
                };
                env.push((x.clone(), v));
            }
            S::If(c, a, b) => match self.expr(c, env)? {
                V::Bool(true) => self.scoped(a, env)?,
                _ => self.scoped(b, env)?,
            },
            S::While(i, k, body) => {
                env.push((i.clone(), V::Int(BigInt::zero())));
                loop {
                    let cur = match lookup(env, i) {
                        V::Int(x) => x.clone(),
                        _ => panic!("while"),
                    };
                    if cur >= BigInt::from(*k) {
                        break;
                    }
                    self.scoped(body, env)?;
                    *lookup(env, i) = V::Int(cur + 1);
                }
            }
            S::For(i, k, body) => {
                for j in 0..*k {
                    env.push((i.clone(), V::Int(BigInt::from(j))));
                    let r = self.scoped(body, env);
                    env.pop();
                    match r {
                        Err(Stop::Continue) => {}
                        r => r?,
                    }
                }
            }
            S::Loop(f, k, c, body) => {
                env.push((f.clone(), V::Int(BigInt::from(*k))));
                loop {
                    self.tick()?;
                    let fuel = match lookup(env, f) {
                        V::Int(x) => x.clone(),
                        _ => panic!("loop"),
                    };
                    if fuel.is_zero() {
                        break;
                    }
                    if let V::Bool(true) = self.expr(c, env)? {
                        break;
                    }
                    *lookup(env, f) = V::Int(fuel - 1);
                    self.scoped(body, env)?;
                }
            }
            S::ReturnIf(c, e) => {
                if let V::Bool(true) = self.expr(c, env)? {
                    let v = self.expr(e, env)?;
                    return Err(Stop::Return(v));
                }
            }
            S::Assert(c, m) => {
                if let V::Bool(false) = self.expr(c, env)? {
                    return Err(panic_msg(m));
                }
            }
            S::Expr(e) => {
                self.expr(e, env)?;
            }
        }
        Ok(())
    }

    pub fn call(&mut self, f: &FnDef, env: &mut Env) -> Result<V, Stop> {
        let r = (|| {
            self.block(&f.body, env)?;
            self.expr(&f.tail, env)
        })();
        match r {
            Err(Stop::Return(v)) => Ok(v),
            other => other,
        }
    }
}

/// Evaluates `main(args)`: Ok(value) or Err(panic data); None if the evaluator's own budget ran out.
pub fn eval_main(p: &Program, args: &[V]) -> Option<Result<V, Vec<BigInt>>> {
    let f = p.fns.last().unwrap();
    let mut env: Env = f.params.iter().map(|(n, _, _)| n.clone()).zip(args.iter().cloned()).collect();
    let mut ev = Eval { p, steps: 0 };
    match ev.call(f, &mut env) {
        Ok(v) => Some(Ok(v)),
        Err(Stop::Panic(d)) => Some(Err(d)),
        Err(_) => None,
    }
}

/// The decoded form (see values.rs) the compiled program's result must have.
pub fn to_val(p: &Program, t: &T, v: &V) -> Val {
    match (t, v) {
        (T::Int(_), V::Int(x)) => Val::Scalar(to_felt(x)),
        (T::Felt, V::Felt(x)) => Val::Scalar(to_felt(x)),
        (T::Bool, V::Bool(b)) => Val::Enum { idx: *b as usize, val: Box::new(Val::Struct(vec![])) },
        (T::Struct(s), V::Struct(fs)) => Val::Struct(p.structs[*s].fields.iter().zip(fs).map(|(t, v)| to_val(p, t, v)).collect()),
        (T::Enum(e), V::Enum(k, payload)) => Val::Enum {
            idx: *k,
            val: Box::new(match (&p.enums[*e].variants[*k], payload) {
                (Some(t), Some(v)) => to_val(p, t, v),
                _ => Val::Struct(vec![]),
            }),
        },
        (T::Opt(t), V::Opt(o)) => match o {
            Some(x) => Val::Enum { idx: 0, val: Box::new(to_val(p, t, x)) },
            None => Val::Enum { idx: 1, val: Box::new(Val::Struct(vec![])) },
        },
        (T::Tuple(ts), V::Tuple(vs)) => Val::Struct(ts.iter().zip(vs).map(|(t, v)| to_val(p, t, v)).collect()),
        (T::Arr(t), V::Arr(vs)) => Val::Array(vs.iter().map(|v| to_val(p, t, v)).collect()),
        _ => panic!("to_val {t:?} {v:?}"),
    }
}

// ---------------------------------------------------------------------------------------------
// Generator.

#[derive(Clone)]
struct Var {
    name: String,
    ty: T,
    mutable: bool,
    moved: bool,
    /// Snapshot parameter (`@Array<T>`): only len/at are available.
    snap: bool,
    /// `ref` parameter: must still be owned when the function returns.
    pinned: bool,
}

pub struct Gen<'a> {
    pub rng: &'a mut Rng,
    pub prog: Program,
    counter: usize,
    /// Ownership-violation injection point recorded while generating (for C08).
    pub move_sites: Vec<(usize, String)>,
    /// Whether the innermost loop around the statements being generated is a `for`.
    nearest_loop_is_for: bool,
    /// > 0 while generating an item of a tuple / fixed-size array literal (see `expr`).
    in_aggregate_item: usize,
}

fn int_types() -> Vec<ITy> {
    TYPES.iter().filter(|t| matches!(t.kind, TyKind::Unsigned | TyKind::Signed)).cloned().collect()
}

impl<'a> Gen<'a> {
    pub fn new(rng: &'a mut Rng) -> Self {
        Gen { rng, prog: Program { structs: vec![], enums: vec![], fns: vec![] }, counter: 0, move_sites: vec![], nearest_loop_is_for: false, in_aggregate_item: 0 }
    }

    fn fresh(&mut self, p: &str) -> String {
        self.counter += 1;
        format!("{p}{}", self.counter)
    }

    fn scalar_type(&mut self) -> T {
        match self.rng.below(10) {
            0 => T::Felt,
            1 => T::Bool,
            _ => T::Int(*self.rng.pick(&int_types())),
        }
    }

    fn value_type(&mut self, depth: usize) -> T {
        if depth == 0 {
            return self.scalar_type();
        }
        let agg_rets: Vec<T> = self.prog.fns.iter().map(|f| f.ret.clone()).filter(|t| matches!(t, T::Tuple(_) | T::Struct(_) | T::Enum(_))).collect();
        match self.rng.below(12) {
            4 | 5 if !agg_rets.is_empty() => self.rng.pick(&agg_rets).clone(),
            0 if !self.prog.structs.is_empty() => T::Struct(self.rng.below(self.prog.structs.len())),
            1 if !self.prog.enums.is_empty() => T::Enum(self.rng.below(self.prog.enums.len())),
            2 => T::Opt(Box::new(self.scalar_type())),
            3 => {
                let n = 1 + self.rng.below(3);
                T::Tuple((0..n).map(|_| self.value_type(depth - 1)).collect())
            }
            _ => self.scalar_type(),
        }
    }

    pub fn rand_value(&mut self, t: &T) -> V {
        match t {
            T::Int(it) => {
                let v = match self.rng.below(10) {
                    0..=3 => BigInt::from(self.rng.below(12)),
                    4 | 5 => self.rng.pick(&it.boundaries()).clone(),
                    6 | 7 => -BigInt::from(self.rng.below(12)),
                    _ => it.random(self.rng),
                };
                V::Int(if it.contains(&v) { v } else { BigInt::from(1) })
            }
            T::Felt => V::Felt(match self.rng.below(6) {
                0 => felt_prime() - 1 - self.rng.below(5),
                1 => BigInt::one() << 128,
                _ => BigInt::from(self.rng.below(100)),
            }),
            T::Bool => V::Bool(self.rng.bool()),
            T::Struct(s) => {
                let fs = self.prog.structs[*s].fields.clone();
                V::Struct(fs.iter().map(|t| self.rand_value(t)).collect())
            }
            T::Enum(e) => {
                let vs = self.prog.enums[*e].variants.clone();
                let k = self.rng.below(vs.len());
                V::Enum(k, vs[k].as_ref().map(|t| Box::new(self.rand_value(t))))
            }
            T::Opt(t) => {
                if self.rng.chance(1, 3) { V::Opt(None) } else { V::Opt(Some(Box::new(self.rand_value(t)))) }
            }
            T::Tuple(ts) => V::Tuple(ts.iter().map(|t| self.rand_value(t)).collect()),
            T::Arr(t) => {
                let n = self.rng.below(4);
                V::Arr((0..n).map(|_| self.rand_value(t)).collect())
            }
        }
    }

    /// A literal-like constructor expression of a value.
    fn lit_expr(&mut self, t: &T, v: &V) -> E {
        match (t, v) {
            (T::Int(_), _) | (T::Felt, _) | (T::Bool, _) => E::Lit(t.clone(), v.clone()),
            (T::Struct(s), V::Struct(fs)) => {
                let fts = self.prog.structs[*s].fields.clone();
                E::StructNew(*s, fts.iter().zip(fs).map(|(t, v)| self.lit_expr(t, v)).collect())
            }
            (T::Enum(e), V::Enum(k, payload)) => {
                let pt = self.prog.enums[*e].variants[*k].clone();
                E::EnumNew(*e, *k, match (pt, payload) {
                    (Some(t), Some(v)) => Some(Box::new(self.lit_expr(&t, v))),
                    _ => None,
                })
            }
            (T::Opt(it), V::Opt(o)) => match o {
                Some(x) => E::Some_(Box::new(self.lit_expr(it, x))),
                None => E::None_((**it).clone()),
            },
            (T::Tuple(ts), V::Tuple(vs)) => E::TupleNew(ts.iter().zip(vs).map(|(t, v)| self.lit_expr(t, v)).collect()),
            (T::Arr(it), V::Arr(vs)) => E::ArrNew((**it).clone(), vs.iter().map(|v| self.lit_expr(it, v)).collect()),
            _ => panic!("lit_expr"),
        }
    }

    /// A literal the optimizer has special cases for: 0, 1, -1, MIN, MAX.
    fn special_const(&mut self, it: &ITy) -> E {
        let c = [BigInt::zero(), BigInt::zero(), BigInt::one(), BigInt::from(-1), it.min(), it.max(), BigInt::from(2)];
        let v = self.rng.pick(&c).clone();
        let v = if it.contains(&v) { v } else { BigInt::zero() };
        E::Lit(T::Int(*it), V::Int(v))
    }

    fn vars_of<'v>(&self, env: &'v [Var], t: &T) -> Vec<&'v Var> {
        env.iter().filter(|v| &v.ty == t && !v.moved && !v.snap).collect()
    }

    /// An expression of type `t` in environment `env`. `fidx` = index of the function being built
    /// (calls go to earlier functions only).
    fn expr(&mut self, t: &T, env: &[Var], fidx: usize, depth: usize) -> E {
        // Variables first, quite often.
        let vs = self.vars_of(env, t);
        if !vs.is_empty() && t.is_copy() && (depth == 0 || self.rng.chance(2, 5)) {
            return E::Var(self.rng.pick(&vs).name.clone());
        }
        if depth == 0 {
            let v = self.rand_value(t);
            return self.lit_expr(t, &v);
        }
        let d = depth - 1;
        if matches!(t, T::Tuple(_) | T::Struct(_) | T::Enum(_)) && self.rng.bool() {
            let cands: Vec<usize> = (0..fidx).filter(|i| &self.prog.fns[*i].ret == t).collect();
            if !cands.is_empty() {
                let f = *self.rng.pick(&cands);
                if let Some(args) = self.call_args(f, env, fidx, d) {
                    return E::Call(f, args);
                }
            }
        }
        // An assignment in the middle of an expression: operands, arguments and members are
        // evaluated left to right, so an earlier read of the variable sees the old value. Not inside
        // items of tuple / fixed-size array literals: there the compiler reads plain variables
        // lazily, which is the recorded finding `value-differs:aggregate-item-read-after-reassign`
        // (kept out of the random programs so that it cannot mask anything else).
        if self.in_aggregate_item == 0 && matches!(t, T::Int(_) | T::Felt | T::Bool) && self.rng.chance(1, 14) {
            let c: Vec<String> = env.iter().filter(|v| v.mutable && !v.moved && !v.snap && !v.pinned && &v.ty == t).map(|v| v.name.clone()).collect();
            if !c.is_empty() {
                let n = self.rng.pick(&c).clone();
                let inner = self.expr(t, env, fidx, d.min(1));
                let assign = E::AssignBlock(n.clone(), Box::new(inner));
                // Usually right after a read of the same variable.
                return match t {
                    T::Int(_) | T::Felt if self.rng.chance(2, 3) => E::Bin(*self.rng.pick(&["+", "-", "*"]), t.clone(), Box::new(E::Var(n)), Box::new(assign)),
                    _ => assign,
                };
            }
        }
        if matches!(t, T::Int(_) | T::Felt | T::Bool) && self.rng.chance(1, 12) {
            if self.rng.bool() {
                return E::SnapDesnap(Box::new(self.expr(t, env, fidx, d)));
            }
            // A closure over the copyable variables in scope, called once.
            let pt = self.scalar_type();
            let pn = self.fresh("c");
            // (Mutable variables cannot be captured.)
            let mut env2: Vec<Var> = env.iter().filter(|v| v.ty.is_copy() && !v.moved && !v.snap && !v.mutable).cloned().collect();
            env2.push(Var { name: pn.clone(), ty: pt.clone(), mutable: false, moved: false, snap: false, pinned: false });
            // No calls inside the closure body (they may need `ref` arguments that are not captured).
            let body = self.expr(t, &env2, 0, d.min(1));
            let arg = self.expr(&pt, env, fidx, d);
            return E::Closure(pn, pt, Box::new(body), Box::new(arg));
        }
        // Type-independent forms.
        match self.rng.below(14) {
            0 => {
                let c = self.expr(&T::Bool, env, fidx, d);
                return E::If(Box::new(c), Box::new(self.expr(t, env, fidx, d)), Box::new(self.expr(t, env, fidx, d)));
            }
            1 => {
                // Call an earlier function returning t.
                let cands: Vec<usize> = (0..fidx).filter(|i| &self.prog.fns[*i].ret == t).collect();
                if !cands.is_empty() {
                    let f = *self.rng.pick(&cands);
                    if let Some(args) = self.call_args(f, env, fidx, d) {
                        return E::Call(f, args);
                    }
                }
            }
            2 if !self.prog.enums.is_empty() => {
                let en = self.rng.below(self.prog.enums.len());
                let scrut = self.expr(&T::Enum(en), env, fidx, d);
                let variants = self.prog.enums[en].variants.clone();
                let mut arms = vec![];
                for v in variants {
                    match v {
                        Some(pt) => {
                            let n = self.fresh("m");
                            let mut env2 = env.to_vec();
                            env2.push(Var { name: n.clone(), ty: pt, mutable: false, moved: false, snap: false, pinned: false });
                            arms.push((Some(n), self.expr(t, &env2, fidx, d)));
                        }
                        None => arms.push((None, self.expr(t, env, fidx, d))),
                    }
                }
                return E::MatchEnum(en, Box::new(scrut), arms);
            }
            3 => {
                let it = self.scalar_type();
                let scrut = self.expr(&T::Opt(Box::new(it.clone())), env, fidx, d);
                let n = self.fresh("o");
                let mut env2 = env.to_vec();
                env2.push(Var { name: n.clone(), ty: it, mutable: false, moved: false, snap: false, pinned: false });
                let (a, b) = (Box::new(self.expr(t, &env2, fidx, d)), Box::new(self.expr(t, env, fidx, d)));
                return if self.rng.bool() { E::MatchOpt(Box::new(scrut), n, a, b) } else { E::IfLet(Box::new(scrut), n, a, b) };
            }
            4 if !self.prog.structs.is_empty() => {
                // Field of a struct that has a field of type t.
                let cands: Vec<(usize, usize)> = self.prog.structs.iter().enumerate().flat_map(|(si, s)| s.fields.iter().enumerate().filter(|(_, ft)| *ft == t).map(move |(fi, _)| (si, fi))).collect();
                if !cands.is_empty() {
                    let (si, fi) = *self.rng.pick(&cands);
                    return E::Field(Box::new(self.expr(&T::Struct(si), env, fidx, d)), fi);
                }
            }
            5 => {
                let k = 1 + self.rng.below(3);
                let scrut_t = T::Int(*self.rng.pick(&[ITy::by_name("u8").unwrap(), ITy::by_name("u32").unwrap(), ITy::by_name("u16").unwrap()]));
                let small = E::Bin("%", scrut_t.clone(), Box::new(self.expr(&scrut_t, env, fidx, d)), Box::new(E::Lit(scrut_t.clone(), V::Int(BigInt::from(k + 1)))));
                let arms = (0..k).map(|_| self.expr(t, env, fidx, d)).collect();
                return E::MatchInt(Box::new(small), arms, Box::new(self.expr(t, env, fidx, d)));
            }
            6 => {
                // A block with a local.
                let lt = self.scalar_type();
                let n = self.fresh("b");
                let init = self.expr(&lt, env, fidx, d);
                let mut env2 = env.to_vec();
                env2.push(Var { name: n.clone(), ty: lt.clone(), mutable: false, moved: false, snap: false, pinned: false });
                return E::Block(vec![S::Let(n, lt, false, init)], Box::new(self.expr(t, &env2, fidx, d)));
            }
            _ => {}
        }
        match t {
            T::Int(it) => {
                let arrs: Vec<&Var> = env.iter().filter(|v| matches!(&v.ty, T::Arr(et) if **et == *t) && !v.moved).collect();
                match self.rng.below(13) {
                    0..=4 => {
                        let ops: &[&'static str] = if it.kind == TyKind::Unsigned { &["+", "-", "*", "/", "%", "&", "|", "^", "+", "-"] } else { &["+", "-", "*", "/", "%", "+", "-"] };
                        let op = *self.rng.pick(ops);
                        E::Bin(op, t.clone(), Box::new(self.expr(t, env, fidx, d)), Box::new(self.expr(t, env, fidx, d)))
                    }
                    5 | 12 => {
                        // An operation with a constant the optimizer special-cases, on either side.
                        let ops: &[&'static str] = if it.kind == TyKind::Unsigned { &["+", "-", "*", "/", "%", "&", "|", "^"] } else { &["+", "-", "*", "/", "%"] };
                        let op = *self.rng.pick(ops);
                        let c = self.special_const(it);
                        let x = self.expr(t, env, fidx, d);
                        if self.rng.bool() { E::Bin(op, t.clone(), Box::new(x), Box::new(c)) } else { E::Bin(op, t.clone(), Box::new(c), Box::new(x)) }
                    }
                    6 if it.kind == TyKind::Signed => E::Neg(t.clone(), Box::new(self.expr(t, env, fidx, d))),
                    7 if !arrs.is_empty() => {
                        let a = self.rng.pick(&arrs).name.clone();
                        let u32t = T::Int(ITy::by_name("u32").unwrap());
                        E::At(a, Box::new(self.expr(&u32t, env, fidx, d)))
                    }
                    8 if it.name == "u32" => {
                        let any_arr: Vec<&Var> = env.iter().filter(|v| matches!(v.ty, T::Arr(_)) && !v.moved).collect();
                        if any_arr.is_empty() { self.expr(t, env, fidx, 0) } else { E::Len(self.rng.pick(&any_arr).name.clone()) }
                    }
                    9 => {
                        let others: Vec<ITy> = int_types().into_iter().filter(|u| u.name != it.name).collect();
                        let u = *self.rng.pick(&others);
                        let widening = u.kind == it.kind && u.bits < it.bits;
                        let inner = self.expr(&T::Int(u), env, fidx, d);
                        if widening { E::Into_(t.clone(), Box::new(inner)) } else { E::TryInto(t.clone(), Box::new(inner)) }
                    }
                    10 => E::TryInto(t.clone(), Box::new(self.expr(&T::Felt, env, fidx, d))),
                    _ => {
                        let v = self.rand_value(t);
                        E::Lit(t.clone(), v)
                    }
                }
            }
            T::Felt => match self.rng.below(6) {
                0..=2 => E::Bin(*self.rng.pick(&["+", "-", "*"]), T::Felt, Box::new(self.expr(t, env, fidx, d)), Box::new(self.expr(t, env, fidx, d))),
                3 => E::Neg(T::Felt, Box::new(self.expr(t, env, fidx, d))),
                4 => {
                    let u = *self.rng.pick(&int_types());
                    E::Into_(T::Felt, Box::new(self.expr(&T::Int(u), env, fidx, d)))
                }
                _ => {
                    let v = self.rand_value(t);
                    E::Lit(t.clone(), v)
                }
            },
            T::Bool => match self.rng.below(13) {
                9..=12 => {
                    // A comparison against a constant the optimizer special-cases.
                    // Prefer the type of an integer variable in scope (signed ones twice as often),
                    // so that the other side is a run-time value.
                    let mut in_scope: Vec<(ITy, String)> = vec![];
                    for v in env.iter().filter(|v| !v.moved && !v.snap) {
                        if let T::Int(it) = &v.ty {
                            in_scope.push((*it, v.name.clone()));
                            if it.kind == TyKind::Signed {
                                in_scope.push((*it, v.name.clone()));
                            }
                        }
                    }
                    let (it, x) = if !in_scope.is_empty() && self.rng.chance(3, 4) {
                        let (it, n) = self.rng.pick(&in_scope).clone();
                        (it, E::Var(n))
                    } else {
                        let it = *self.rng.pick(&int_types());
                        (it, self.expr(&T::Int(it), env, fidx, d))
                    };
                    let st = T::Int(it);
                    let op = *self.rng.pick(&["==", "!=", "<", "<=", ">", ">="]);
                    let c = self.special_const(&it);
                    if self.rng.bool() { E::Bin(op, st, Box::new(x), Box::new(c)) } else { E::Bin(op, st, Box::new(c), Box::new(x)) }
                }
                0..=2 => {
                    let st = self.scalar_type();
                    let ops: &[&'static str] = match st {
                        T::Int(_) => &["==", "!=", "<", "<=", ">", ">="],
                        _ => &["==", "!="],
                    };
                    E::Bin(*self.rng.pick(ops), st.clone(), Box::new(self.expr(&st, env, fidx, d)), Box::new(self.expr(&st, env, fidx, d)))
                }
                3 => E::And(Box::new(self.expr(t, env, fidx, d)), Box::new(self.expr(t, env, fidx, d))),
                4 => E::Or(Box::new(self.expr(t, env, fidx, d)), Box::new(self.expr(t, env, fidx, d))),
                5 => E::Not(Box::new(self.expr(t, env, fidx, d))),
                6 if !self.prog.structs.is_empty() => {
                    let st = T::Struct(self.rng.below(self.prog.structs.len()));
                    E::EqDerived(Box::new(self.expr(&st, env, fidx, d)), Box::new(self.expr(&st, env, fidx, d)))
                }
                7 if !self.prog.enums.is_empty() => {
                    let st = T::Enum(self.rng.below(self.prog.enums.len()));
                    E::EqDerived(Box::new(self.expr(&st, env, fidx, d)), Box::new(self.expr(&st, env, fidx, d)))
                }
                _ => E::Lit(T::Bool, V::Bool(self.rng.bool())),
            },
            T::Struct(s) => {
                let fts = self.prog.structs[*s].fields.clone();
                E::StructNew(*s, fts.iter().map(|ft| self.expr(ft, env, fidx, d)).collect())
            }
            T::Enum(e) => {
                let vs = self.prog.enums[*e].variants.clone();
                let k = self.rng.below(vs.len());
                E::EnumNew(*e, k, vs[k].as_ref().map(|pt| Box::new(self.expr(pt, env, fidx, d))))
            }
            T::Opt(it) => {
                if self.rng.chance(1, 4) { E::None_((**it).clone()) } else { E::Some_(Box::new(self.expr(it, env, fidx, d))) }
            }
            T::Tuple(ts) => {
                self.in_aggregate_item += 1;
                let items = ts.iter().map(|tt| self.expr(tt, env, fidx, d)).collect();
                self.in_aggregate_item -= 1;
                E::TupleNew(items)
            }
            T::Arr(it) => {
                if **it == T::Felt && self.rng.chance(1, 2) {
                    let st = self.value_type(1);
                    E::Serialize(st.clone(), Box::new(self.expr(&st, env, fidx, d)))
                } else {
                    let n = self.rng.below(4);
                    E::ArrNew((**it).clone(), (0..n).map(|_| self.expr(it, env, fidx, d)).collect())
                }
            }
        }
    }

    /// Arguments for calling function `f` from `env`; None if a ref/snapshot argument is needed
    /// and no suitable variable exists.
    fn call_args(&mut self, f: usize, env: &[Var], fidx: usize, depth: usize) -> Option<Vec<Arg>> {
        let params = self.prog.fns[f].params.clone();
        let mut args = vec![];
        let mut used_refs: Vec<String> = vec![];
        for (_, t, m) in params {
            match m {
                ParamMode::Value => args.push(Arg::Value(self.expr(&t, env, fidx, depth))),
                ParamMode::Ref => {
                    let c: Vec<&Var> = env.iter().filter(|v| v.ty == t && v.mutable && !v.moved && !v.snap && !used_refs.contains(&v.name)).collect();
                    if c.is_empty() {
                        return None;
                    }
                    let n = self.rng.pick(&c).name.clone();
                    used_refs.push(n.clone());
                    args.push(Arg::Ref(n));
                }
                ParamMode::Snap => {
                    let c: Vec<&Var> = env.iter().filter(|v| v.ty == t && !v.moved && !v.snap && !used_refs.contains(&v.name)).collect();
                    if c.is_empty() {
                        return None;
                    }
                    args.push(Arg::Snap(self.rng.pick(&c).name.clone()));
                }
            }
        }
        // A variable passed by `ref` must not also be read in a by-value argument expression of
        // the same call: keep it simple and reject such calls.
        for a in &args {
            if let Arg::Value(e) = a {
                let text = format!("{e:?}");
                if used_refs.iter().any(|r| text.contains(&format!("\"{r}\""))) {
                    return None;
                }
            }
        }
        Some(args)
    }

    /// A random member path into struct `si` (descending into nested structs most of the time) and
    /// the type at its end.
    fn member_path(&mut self, si: usize) -> (Vec<usize>, T) {
        let mut path = vec![];
        let mut cur = si;
        loop {
            let fts = self.prog.structs[cur].fields.clone();
            let k = self.rng.below(fts.len());
            path.push(k);
            match &fts[k] {
                T::Struct(inner) if self.rng.chance(3, 4) => cur = *inner,
                t => return (path, t.clone()),
            }
        }
    }

    fn stmts(&mut self, env: &mut Vec<Var>, fidx: usize, n: usize, depth: usize, in_loop: bool, ret: &T) -> Vec<S> {
        let mut out = vec![];
        for _ in 0..n {
            let d = 2;
            match self.rng.below(23) {
                21 | 22 if depth > 0 && !self.prog.structs.is_empty() => {
                    // let mut p = <value>; let mut cnt = 0;
                    // loop { if fuel == 0 || p == <value with one member replaced> { break; } p.a.b = <that member>; cnt += 1; }
                    // if cnt == 1 { return ..; }
                    // The comparison takes a snapshot of the whole struct in every iteration while
                    // the body assigns a (possibly nested) member: the loop must stop after one
                    // assignment.
                    let nested: Vec<usize> = (0..self.prog.structs.len()).filter(|i| self.prog.structs[*i].fields.iter().any(|t| matches!(t, T::Struct(_)))).collect();
                    let si = if !nested.is_empty() && self.rng.chance(4, 5) { *self.rng.pick(&nested) } else { self.rng.below(self.prog.structs.len()) };
                    let t = T::Struct(si);
                    let name = self.fresh("v");
                    let init_v = self.rand_value(&t);
                    let (path, ft) = self.member_path(si);
                    let new_member = self.rand_value(&ft);
                    let mut target_v = init_v.clone();
                    *member_mut(&mut target_v, &path) = new_member.clone();
                    let init = self.lit_expr(&t, &init_v);
                    out.push(S::Let(name.clone(), t.clone(), true, init));
                    env.push(Var { name: name.clone(), ty: t.clone(), mutable: true, moved: false, snap: false, pinned: false });
                    let cnt = self.fresh("v");
                    out.push(S::Let(cnt.clone(), T::Felt, true, E::Lit(T::Felt, V::Felt(BigInt::zero()))));
                    env.push(Var { name: cnt.clone(), ty: T::Felt, mutable: true, moved: false, snap: false, pinned: true });
                    let f = self.fresh("fuel");
                    let k = 2 + self.rng.below(3) as u32;
                    let target = self.lit_expr(&t, &target_v);
                    let c = if self.rng.bool() {
                        E::EqDerived(Box::new(E::Var(name.clone())), Box::new(target))
                    } else {
                        E::EqDerived(Box::new(target), Box::new(E::Var(name.clone())))
                    };
                    let member_e = self.lit_expr(&ft, &new_member);
                    let body = vec![
                        S::FieldAssign(name.clone(), path, member_e),
                        S::CompoundAssign(cnt.clone(), "+", T::Felt, E::Lit(T::Felt, V::Felt(BigInt::one()))),
                    ];
                    out.push(S::Loop(f, k, c, body));
                    if !in_loop {
                        let e = self.expr(ret, env, fidx, 1);
                        let j = E::Lit(T::Felt, V::Felt(BigInt::from(1 + self.rng.below(2))));
                        out.push(S::ReturnIf(E::Bin("==", T::Felt, Box::new(E::Var(cnt)), Box::new(j)), e));
                    }
                }
                0..=3 => {
                    let t = if self.rng.chance(1, 6) { T::Arr(Box::new(self.scalar_type())) } else { self.value_type(1) };
                    let name = self.fresh("v");
                    let mutable = self.rng.chance(1, 2) || matches!(t, T::Arr(_));
                    let e = self.expr(&t, env, fidx, d);
                    out.push(S::Let(name.clone(), t.clone(), mutable, e));
                    env.push(Var { name, ty: t, mutable, moved: false, snap: false, pinned: false });
                }
                4 | 5 => {
                    let c: Vec<Var> = env.iter().filter(|v| v.mutable && !v.moved && v.ty.is_copy()).cloned().collect();
                    if let Some(v) = (!c.is_empty()).then(|| self.rng.pick(&c).clone()) {
                        let e = self.expr(&v.ty, env, fidx, d);
                        match &v.ty {
                            T::Int(_) | T::Felt if self.rng.bool() => {
                                let ops: &[&'static str] = if v.ty == T::Felt { &["+", "-", "*"] } else { &["+", "-", "*"] };
                                out.push(S::OpAssign(v.name.clone(), *self.rng.pick(ops), v.ty.clone(), e));
                            }
                            _ => out.push(S::Assign(v.name.clone(), e)),
                        }
                    }
                }
                6 => {
                    let c: Vec<Var> = env.iter().filter(|v| v.mutable && !v.moved && !v.snap && matches!(v.ty, T::Arr(_))).cloned().collect();
                    if let Some(v) = (!c.is_empty()).then(|| self.rng.pick(&c).clone()) {
                        let T::Arr(it) = &v.ty else { unreachable!() };
                        if self.rng.chance(3, 4) {
                            let e = self.expr(it, env, fidx, d);
                            out.push(S::Append(v.name.clone(), e));
                        } else if !in_loop {
                            let x = self.fresh("p");
                            out.push(S::PopFront(x.clone(), v.name.clone(), (**it).clone()));
                            env.push(Var { name: x, ty: T::Opt(it.clone()), mutable: false, moved: false, snap: false, pinned: false });
                        }
                    }
                }
                7 if depth > 0 => {
                    let c = self.expr(&T::Bool, env, fidx, d);
                    let mut e1 = env.clone();
                    let na = 1 + self.rng.below(3);
                    let a = self.stmts(&mut e1, fidx, na, depth - 1, in_loop, ret);
                    let mut e2 = env.clone();
                    let nb = 1 + self.rng.below(2);
                    let b = if self.rng.bool() { self.stmts(&mut e2, fidx, nb, depth - 1, in_loop, ret) } else { vec![] };
                    out.push(S::If(c, a, b));
                }
                8 if depth > 0 => {
                    let i = self.fresh("i");
                    let k = 1 + self.rng.below(5) as u32;
                    let mut e1 = env.clone();
                    e1.push(Var { name: i.clone(), ty: T::Int(ITy::by_name("u32").unwrap()), mutable: false, moved: false, snap: false, pinned: false });
                    let nb = 1 + self.rng.below(3);
                    let is_for = self.rng.bool();
                    let saved = std::mem::replace(&mut self.nearest_loop_is_for, is_for);
                    let body = self.stmts(&mut e1, fidx, nb, depth - 1, true, ret);
                    self.nearest_loop_is_for = saved;
                    out.push(if is_for { S::For(i, k, body) } else { S::While(i, k, body) });
                }
                9 if depth > 0 => {
                    let f = self.fresh("fuel");
                    let k = 1 + self.rng.below(5) as u32;
                    let mut c = self.expr(&T::Bool, env, fidx, d);
                    // A loop that compares a whole mutable struct (a snapshot is taken by `==`)
                    // while its body updates a member of it, possibly a nested one.
                    let structs: Vec<Var> = env.iter().filter(|v| v.mutable && !v.moved && !v.snap && matches!(v.ty, T::Struct(_))).cloned().collect();
                    let mut member_update: Option<S> = None;
                    if !structs.is_empty() && self.rng.chance(2, 3) {
                        let v = self.rng.pick(&structs).clone();
                        let T::Struct(si) = v.ty else { unreachable!() };
                        let target = self.expr(&v.ty, env, fidx, 1);
                        c = E::EqDerived(Box::new(E::Var(v.name.clone())), Box::new(target));
                        let (path, ft) = self.member_path(si);
                        let e = self.expr(&ft, env, fidx, 1);
                        member_update = Some(if matches!(ft, T::Int(_) | T::Felt) && self.rng.bool() {
                            S::FieldCompound(v.name.clone(), path, *self.rng.pick(&["+", "*"]), ft, e)
                        } else {
                            S::FieldAssign(v.name.clone(), path, e)
                        });
                    }
                    let mut e1 = env.clone();
                    let nb = 1 + self.rng.below(3);
                    let saved = std::mem::replace(&mut self.nearest_loop_is_for, false);
                    let body = self.stmts(&mut e1, fidx, nb, depth - 1, true, ret);
                    self.nearest_loop_is_for = saved;
                    let mut body = body;
                    if let Some(u) = member_update {
                        body.insert(self.rng.below(body.len() + 1), u);
                    }
                    out.push(S::Loop(f, k, c, body));
                }
                10 if !in_loop => {
                    let c = self.expr(&T::Bool, env, fidx, d);
                    let e = self.expr(ret, env, fidx, d);
                    out.push(S::ReturnIf(c, e));
                }
                11 => {
                    let c = self.expr(&T::Bool, env, fidx, d);
                    let m = format!("assert{}", self.rng.below(100));
                    out.push(S::Assert(c, m));
                }
                12 => {
                    // Tuple destructuring.
                    let n = 2 + self.rng.below(2);
                    let mut ts: Vec<T> = (0..n).map(|_| self.scalar_type()).collect();
                    let tuple_rets: Vec<Vec<T>> = self.prog.fns[..fidx.min(self.prog.fns.len())]
                        .iter()
                        .filter_map(|f| match &f.ret {
                            T::Tuple(ts) if ts.iter().all(|t| matches!(t, T::Int(_) | T::Felt | T::Bool)) => Some(ts.clone()),
                            _ => None,
                        })
                        .collect();
                    if !tuple_rets.is_empty() && self.rng.bool() {
                        ts = self.rng.pick(&tuple_rets).clone();
                    }
                    let n = ts.len();
                    let e = self.expr(&T::Tuple(ts.clone()), env, fidx, d);
                    let names: Vec<String> = (0..n).map(|_| self.fresh("t")).collect();
                    out.push(S::LetTuple(names.clone(), ts.clone(), e));
                    for (n, t) in names.into_iter().zip(ts) {
                        env.push(Var { name: n, ty: t, mutable: false, moved: false, snap: false, pinned: false });
                    }
                }
                13 => {
                    // Call for effect (functions with ref params).
                    let cands: Vec<usize> = (0..fidx).filter(|i| self.prog.fns[*i].params.iter().any(|(_, _, m)| *m == ParamMode::Ref)).collect();
                    if !cands.is_empty() && !in_loop {
                        let f = *self.rng.pick(&cands);
                        if let Some(args) = self.call_args(f, env, fidx, d) {
                            out.push(S::Expr(E::Call(f, args)));
                        }
                    }
                }
                15 | 16 => {
                    // Compound assignment, on a variable or on a struct member.
                    let c: Vec<Var> = env.iter().filter(|v| v.mutable && !v.moved && !v.snap && matches!(v.ty, T::Int(_) | T::Felt | T::Struct(_))).cloned().collect();
                    if let Some(v) = (!c.is_empty()).then(|| self.rng.pick(&c).clone()) {
                        match &v.ty {
                            T::Struct(si) => {
                                let (path, ft) = self.member_path(*si);
                                let e = self.expr(&ft, env, fidx, d);
                                if matches!(ft, T::Int(_) | T::Felt) && self.rng.bool() {
                                    out.push(S::FieldCompound(v.name.clone(), path, *self.rng.pick(&["+", "-", "*"]), ft, e));
                                } else {
                                    out.push(S::FieldAssign(v.name.clone(), path, e));
                                }
                            }
                            t => {
                                let e = self.expr(t, env, fidx, d);
                                out.push(S::CompoundAssign(v.name.clone(), *self.rng.pick(&["+", "-", "*"]), t.clone(), e));
                            }
                        }
                    }
                }
                17 => {
                    // Fixed-size array literal taken apart again.
                    let t = self.scalar_type();
                    let n = 2 + self.rng.below(2);
                    self.in_aggregate_item += 1;
                    let es: Vec<E> = (0..n).map(|_| self.expr(&t, env, fidx, d)).collect();
                    self.in_aggregate_item -= 1;
                    let names: Vec<String> = (0..n).map(|_| self.fresh("q")).collect();
                    out.push(S::LetFixed(names.clone(), es));
                    for name in names {
                        env.push(Var { name, ty: t.clone(), mutable: false, moved: false, snap: false, pinned: false });
                    }
                }
                18 | 19 if in_loop && self.nearest_loop_is_for => {
                    let c = self.expr(&T::Bool, env, fidx, d);
                    out.push(S::ContinueIf(c));
                }
                20 => {
                    // A mutable struct to assign members of later.
                    if !self.prog.structs.is_empty() {
                        let t = T::Struct(self.rng.below(self.prog.structs.len()));
                        let name = self.fresh("v");
                        let e = self.expr(&t, env, fidx, d);
                        out.push(S::Let(name.clone(), t.clone(), true, e));
                        env.push(Var { name, ty: t, mutable: true, moved: false, snap: false, pinned: false });
                    }
                }
                14 if !in_loop && depth == 2 => {
                    // Move an array into a new binding (ownership transfer); only at the top level
                    // of a function body, so that no branch leaves the variable half-moved.
                    let c: Vec<usize> = env.iter().enumerate().filter(|(_, v)| !v.moved && !v.snap && !v.pinned && matches!(v.ty, T::Arr(_))).map(|(i, _)| i).collect();
                    if !c.is_empty() {
                        let i = *self.rng.pick(&c);
                        let old = env[i].clone();
                        env[i].moved = true;
                        let name = self.fresh("w");
                        out.push(S::Let(name.clone(), old.ty.clone(), true, E::Var(old.name.clone())));
                        env.push(Var { name, ty: old.ty, mutable: true, moved: false, snap: false, pinned: false });
                        self.move_sites.push((fidx, old.name));
                    }
                }
                _ => {}
            }
        }
        out
    }

    /// A small function in a shape optimizations have special handling for: an aggregate taken
    /// apart and put together again with its members permuted or repeated, an enum re-wrapped in
    /// another variant of the same payload type.
    fn idiom_fn(&mut self, fi: usize) -> Option<FnDef> {
        let name = format!("f{fi}");
        let p = self.fresh("a");
        let var = |n: &str, t: &T| Var { name: n.to_string(), ty: t.clone(), mutable: false, moved: false, snap: false, pinned: false };
        match self.rng.below(3) {
            0 => {
                // Tuple: destructure, rebuild with same-typed members shuffled.
                let base = self.scalar_type();
                let n = 2 + self.rng.below(3);
                let ts: Vec<T> = (0..n).map(|_| if self.rng.chance(2, 3) { base.clone() } else { self.scalar_type() }).collect();
                let t = T::Tuple(ts.clone());
                let names: Vec<String> = (0..n).map(|_| self.fresh("t")).collect();
                let mut env = vec![var(&p, &t)];
                let mut body = vec![S::LetTuple(names.clone(), ts.clone(), E::Var(p.clone()))];
                for (n, t) in names.iter().zip(&ts) {
                    env.push(var(n, t));
                }
                if self.rng.chance(1, 3) {
                    body.extend(self.stmts(&mut env, fi, 1, 1, false, &t));
                }
                let tail = E::TupleNew(
                    ts.iter()
                        .map(|ft| {
                            let c: Vec<&String> = names.iter().zip(&ts).filter(|(_, t2)| *t2 == ft).map(|(n, _)| n).collect();
                            E::Var((*self.rng.pick(&c)).clone())
                        })
                        .collect(),
                );
                Some(FnDef { name, params: vec![(p, t.clone(), ParamMode::Value)], ret: t, body, tail })
            }
            1 if !self.prog.structs.is_empty() => {
                // Struct: members read one by one, rebuilt shuffled.
                let si = self.rng.below(self.prog.structs.len());
                let fts = self.prog.structs[si].fields.clone();
                let t = T::Struct(si);
                let names: Vec<String> = (0..fts.len()).map(|_| self.fresh("t")).collect();
                let body: Vec<S> = names.iter().zip(&fts).enumerate().map(|(i, (n, ft))| S::Let(n.clone(), ft.clone(), false, E::Field(Box::new(E::Var(p.clone())), i))).collect();
                let tail = E::StructNew(
                    si,
                    fts.iter()
                        .map(|ft| {
                            let c: Vec<&String> = names.iter().zip(&fts).filter(|(_, t2)| *t2 == ft).map(|(n, _)| n).collect();
                            E::Var((*self.rng.pick(&c)).clone())
                        })
                        .collect(),
                );
                Some(FnDef { name, params: vec![(p, t.clone(), ParamMode::Value)], ret: t, body, tail })
            }
            2 if !self.prog.enums.is_empty() => {
                // Enum: every variant re-wrapped in a variant of the same payload type.
                let ei = self.rng.below(self.prog.enums.len());
                let variants = self.prog.enums[ei].variants.clone();
                let t = T::Enum(ei);
                let mut arms = vec![];
                for v in &variants {
                    let same: Vec<usize> = variants.iter().enumerate().filter(|(_, v2)| *v2 == v).map(|(i, _)| i).collect();
                    let target = *self.rng.pick(&same);
                    match v {
                        Some(_) => {
                            let m = self.fresh("m");
                            arms.push((Some(m.clone()), E::EnumNew(ei, target, Some(Box::new(E::Var(m))))));
                        }
                        None => arms.push((None, E::EnumNew(ei, target, None))),
                    }
                }
                let tail = E::MatchEnum(ei, Box::new(E::Var(p.clone())), arms);
                Some(FnDef { name, params: vec![(p, t.clone(), ParamMode::Value)], ret: t, body: vec![], tail })
            }
            _ => None,
        }
    }

    pub fn program(mut self) -> (Program, Vec<(usize, String)>) {
        for _ in 0..self.rng.below(4) {
            let n = 1 + self.rng.below(3);
            let base = self.scalar_type();
            let nstructs = self.prog.structs.len();
            let fields = (0..n)
                .map(|_| {
                    if nstructs > 0 && self.rng.chance(1, 3) {
                        // A member of an earlier struct type: nested member paths.
                        T::Struct(self.rng.below(nstructs))
                    } else if self.rng.bool() {
                        base.clone()
                    } else {
                        self.scalar_type()
                    }
                })
                .collect();
            self.prog.structs.push(StructDef { fields });
        }
        for _ in 0..self.rng.below(3) {
            let n = 2 + self.rng.below(2);
            let base = self.scalar_type();
            let variants = (0..n).map(|_| if self.rng.chance(2, 3) { Some(if self.rng.bool() { base.clone() } else { self.scalar_type() }) } else { None }).collect();
            self.prog.enums.push(EnumDef { variants });
        }
        let nf = 1 + self.rng.below(4);
        for fi in 0..=nf {
            let is_main = fi == nf;
            if !is_main && self.rng.chance(1, 3) {
                if let Some(f) = self.idiom_fn(fi) {
                    self.prog.fns.push(f);
                    continue;
                }
            }
            let np = if is_main { 1 + self.rng.below(4) } else { self.rng.below(4) };
            let mut params = vec![];
            let mut env = vec![];
            for _ in 0..np {
                let name = self.fresh("a");
                if !is_main && self.rng.chance(1, 4) {
                    let t = T::Arr(Box::new(self.scalar_type()));
                    let mode = if self.rng.bool() { ParamMode::Ref } else { ParamMode::Snap };
                    env.push(Var { name: name.clone(), ty: t.clone(), mutable: mode == ParamMode::Ref, moved: false, snap: mode == ParamMode::Snap, pinned: mode == ParamMode::Ref });
                    params.push((name, t, mode));
                } else {
                    // Main takes scalars only (arguments are passed as felts by the runner).
                    let t = if is_main { self.scalar_type() } else { self.value_type(1) };
                    env.push(Var { name: name.clone(), ty: t.clone(), mutable: false, moved: false, snap: false, pinned: false });
                    params.push((name, t, ParamMode::Value));
                }
            }
            let ret = if self.rng.chance(1, 5) { T::Arr(Box::new(T::Felt)) } else { self.value_type(2) };
            let nstmts = 2 + self.rng.below(if is_main { 8 } else { 5 });
            let body = self.stmts(&mut env, fi, nstmts, 2, false, &ret);
            let tail = self.expr(&ret, &env, fi, 2);
            let name = if is_main { "main".to_string() } else { format!("f{fi}") };
            self.prog.fns.push(FnDef { name, params, ret, body, tail });
        }
        (self.prog, self.move_sites)
    }
}

/// Generates a program from a seed.
pub fn generate(rng: &mut Rng) -> (Program, Vec<(usize, String)>) {
    Gen::new(rng).program()
}

/// Random arguments for `main`.
pub fn main_args(p: &Program, rng: &mut Rng) -> Vec<V> {
    let params = p.fns.last().unwrap().params.clone();
    let mut g = Gen::new(rng);
    g.prog = p.clone();
    params.iter().map(|(_, t, _)| g.rand_value(t)).collect()
}

pub fn args_to_runner(p: &Program, args: &[V]) -> Vec<cairo_lang_runner::Arg> {
    let params = &p.fns.last().unwrap().params;
    params
        .iter()
        .zip(args)
        .map(|((_, t, _), v)| match (t, v) {
            (T::Int(_), V::Int(x)) | (T::Felt, V::Felt(x)) => cairo_lang_runner::Arg::Value(to_felt(x)),
            (T::Bool, V::Bool(b)) => cairo_lang_runner::Arg::Value(to_felt(&BigInt::from(*b as u8))),
            _ => panic!("main takes scalars"),
        })
        .collect()
}

pub fn _unused(_: BTreeMap<u8, u8>) {}
