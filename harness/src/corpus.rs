//! Workload sources taken from the repository itself (W3): `.cairo` files, `.sierra` files, and the
//! `//! > tag` sections of the test-data files.

use std::collections::BTreeMap;
use std::fs;
use std::path::{Path, PathBuf};

use crate::report::REPO_DIR;

fn walk(dir: &Path, out: &mut Vec<PathBuf>) {
    let Ok(rd) = fs::read_dir(dir) else {
        return;
    };
    let mut entries: Vec<PathBuf> = rd.filter_map(|e| e.ok().map(|e| e.path())).collect();
    entries.sort();
    for p in entries {
        let name = p.file_name().and_then(|n| n.to_str()).unwrap_or("");
        if name == "target" || name == ".git" || name == "node_modules" {
            continue;
        }
        let Ok(md) = fs::symlink_metadata(&p) else {
            continue;
        };
        if md.is_dir() {
            walk(&p, out);
        } else if md.is_file() {
            out.push(p);
        }
    }
}

/// All files of the repository (sorted, target/ and .git/ skipped).
pub fn all_files() -> Vec<PathBuf> {
    let mut out = vec![];
    walk(Path::new(REPO_DIR), &mut out);
    out
}

/// All `.cairo` files of the repository with their contents (valid UTF-8 only).
pub fn cairo_files() -> Vec<(PathBuf, String)> {
    all_files()
        .into_iter()
        .filter(|p| p.extension().is_some_and(|e| e == "cairo"))
        .filter_map(|p| fs::read_to_string(&p).ok().map(|s| (p, s)))
        .collect()
}

/// All `.sierra` files of the repository with their contents.
pub fn sierra_files() -> Vec<(PathBuf, String)> {
    all_files()
        .into_iter()
        .filter(|p| p.extension().is_some_and(|e| e == "sierra"))
        .filter_map(|p| fs::read_to_string(&p).ok().map(|s| (p, s)))
        .collect()
}

/// One test of a test-data file: its tag -> content map.
#[derive(Clone, Debug)]
pub struct TestCase {
    pub file: PathBuf,
    pub name: String,
    pub sections: BTreeMap<String, String>,
}

/// Parses the repository's test-data format: `//! > <tag>` starts a section, a line of
/// `//! > ====...` ends a test.
pub fn parse_test_file(path: &Path, content: &str) -> Vec<TestCase> {
    let mut tests = vec![];
    let mut cur: BTreeMap<String, String> = BTreeMap::new();
    let mut name = String::new();
    let mut tag: Option<String> = None;
    let mut buf = String::new();
    let mut flush_section =
        |tag: &mut Option<String>, buf: &mut String, cur: &mut BTreeMap<String, String>| {
            if let Some(t) = tag.take() {
                cur.insert(t, buf.trim_matches('\n').to_string());
            }
            buf.clear();
        };
    for line in content.lines() {
        if let Some(rest) = line.strip_prefix("//! > ") {
            if rest.starts_with("====") {
                flush_section(&mut tag, &mut buf, &mut cur);
                if !cur.is_empty() {
                    tests.push(TestCase {
                        file: path.to_path_buf(),
                        name: std::mem::take(&mut name),
                        sections: std::mem::take(&mut cur),
                    });
                }
                continue;
            }
            flush_section(&mut tag, &mut buf, &mut cur);
            if cur.is_empty() && name.is_empty() && !is_known_tag(rest) {
                name = rest.trim().to_string();
                tag = None;
            } else {
                tag = Some(rest.trim().to_string());
            }
            continue;
        }
        if tag.is_some() {
            buf.push_str(line);
            buf.push('\n');
        }
    }
    flush_section(&mut tag, &mut buf, &mut cur);
    if !cur.is_empty() {
        tests.push(TestCase { file: path.to_path_buf(), name, sections: cur });
    }
    tests
}

fn is_known_tag(t: &str) -> bool {
    matches!(
        t.trim(),
        "test_runner_name"
            | "cairo_code"
            | "cairo"
            | "sierra_code"
            | "casm"
            | "function_costs"
            | "test_comments"
            | "expected_diagnostics"
    )
}

/// All test cases of all extension-less / `.txt` test-data files under the given repo-relative
/// directories that contain at least one `//! > ` marker.
pub fn test_cases_under(rel_dirs: &[&str]) -> Vec<TestCase> {
    let mut out = vec![];
    for rel in rel_dirs {
        let mut files = vec![];
        walk(&Path::new(REPO_DIR).join(rel), &mut files);
        for f in files {
            let ext = f.extension().and_then(|e| e.to_str()).unwrap_or("");
            if !(ext.is_empty() || ext == "txt") {
                continue;
            }
            let Ok(content) = fs::read_to_string(&f) else {
                continue;
            };
            if !content.contains("//! > ") {
                continue;
            }
            out.extend(parse_test_file(&f, &content));
        }
    }
    out
}

/// The e2e libfunc tests: (file, test name, cairo code, sierra code).
pub fn e2e_cases() -> Vec<TestCase> {
    test_cases_under(&["tests/e2e_test_data"])
}

/// Every `cairo_code` / `cairo` snippet of every test-data file in the repo.
pub fn all_cairo_snippets() -> Vec<(String, String)> {
    let mut out = vec![];
    for tc in test_cases_under(&["tests", "crates"]) {
        for key in ["cairo_code", "cairo", "module_code", "function", "function_code"] {
            if let Some(code) = tc.sections.get(key) {
                if !code.trim().is_empty() {
                    out.push((
                        format!("{}::{}::{}", rel(&tc.file), tc.name, key),
                        code.clone(),
                    ));
                }
            }
        }
    }
    out
}

/// Every `sierra_code` / `sierra` program text of every test-data file in the repo, plus `.sierra`
/// files.
pub fn all_sierra_texts() -> Vec<(String, String)> {
    let mut out = vec![];
    for (p, s) in sierra_files() {
        out.push((rel(&p), s));
    }
    for tc in test_cases_under(&["tests", "crates"]) {
        for key in ["sierra_code", "sierra"] {
            if let Some(code) = tc.sections.get(key) {
                if code.contains('@') && code.contains("libfunc ") {
                    out.push((format!("{}::{}", rel(&tc.file), tc.name), code.clone()));
                }
            }
        }
    }
    out
}

pub fn rel(p: &Path) -> String {
    p.strip_prefix(REPO_DIR).unwrap_or(p).to_string_lossy().trim_start_matches('/').to_string()
}
