//! Typed view of Sierra values: decoding results from final memory by the Sierra return type
//! (so results are compared by content, never by raw pointer), and generating in-range arguments
//! from Sierra parameter types.

use cairo_lang_runnable_utils::builder::RunnableBuilder;
use cairo_lang_runner::Arg;
use cairo_lang_sierra::ids::ConcreteTypeId;
use cairo_lang_sierra::program::GenericArg;
use num_bigint::BigInt;
use num_traits::{One, Signed, ToPrimitive, Zero};
use starknet_types_core::felt::Felt as Felt252;

use crate::rng::Rng;

#[derive(Clone, Debug, PartialEq, Eq)]
pub enum Val {
    Scalar(Felt252),
    Struct(Vec<Val>),
    Enum { idx: usize, val: Box<Val> },
    Array(Vec<Val>),
    Boxed(Box<Val>),
    Null,
    /// A value whose content the reader does not interpret (dicts, builtins, ...).
    Opaque(String),
    /// The cells do not form a valid value of the type.
    Invalid(String),
}

impl Val {
    /// True if the value contains a part that cannot be compared by content.
    pub fn has_opaque(&self) -> bool {
        match self {
            Val::Opaque(_) => true,
            Val::Scalar(_) | Val::Null | Val::Invalid(_) => false,
            Val::Struct(v) | Val::Array(v) => v.iter().any(|x| x.has_opaque()),
            Val::Enum { val, .. } | Val::Boxed(val) => val.has_opaque(),
        }
    }
    pub fn has_invalid(&self) -> bool {
        match self {
            Val::Invalid(_) => true,
            Val::Scalar(_) | Val::Null | Val::Opaque(_) => false,
            Val::Struct(v) | Val::Array(v) => v.iter().any(|x| x.has_invalid()),
            Val::Enum { val, .. } | Val::Boxed(val) => val.has_invalid(),
        }
    }
    pub fn short(&self) -> String {
        let s = format!("{self:?}");
        if s.len() > 300 { format!("{}...", &s[..300]) } else { s }
    }
}

pub fn generic_name(b: &RunnableBuilder, ty: &ConcreteTypeId) -> String {
    b.type_long_id(ty).generic_id.0.to_string()
}

fn type_args(b: &RunnableBuilder, ty: &ConcreteTypeId) -> Vec<ConcreteTypeId> {
    b.type_long_id(ty)
        .generic_args
        .iter()
        .filter_map(|a| if let GenericArg::Type(t) = a { Some(t.clone()) } else { None })
        .collect()
}

fn value_args(b: &RunnableBuilder, ty: &ConcreteTypeId) -> Vec<BigInt> {
    b.type_long_id(ty)
        .generic_args
        .iter()
        .filter_map(|a| if let GenericArg::Value(v) = a { Some(v.clone()) } else { None })
        .collect()
}

pub fn size_of(b: &RunnableBuilder, ty: &ConcreteTypeId) -> usize {
    b.type_size(ty).max(0) as usize
}

fn mem(memory: &[Option<Felt252>], addr: usize) -> Option<Felt252> {
    memory.get(addr).copied().flatten()
}

pub fn variant_index(n: usize, selector: &Felt252) -> Option<usize> {
    let s = selector.to_bigint().to_usize()?;
    if n <= 2 {
        (s < n.max(1)).then_some(s)
    } else {
        // selector = 2 * (n - idx) - 1.
        if s % 2 == 0 || s == 0 {
            return None;
        }
        let k = (s + 1) / 2;
        (k >= 1 && k <= n).then(|| n - k)
    }
}

pub fn variant_selector(n: usize, idx: usize) -> usize {
    if n <= 2 { idx } else { 2 * (n - idx) - 1 }
}

/// Decodes the value of type `ty` held in `cells`.
pub fn decode(
    b: &RunnableBuilder,
    ty: &ConcreteTypeId,
    cells: &[Felt252],
    memory: &[Option<Felt252>],
    depth: usize,
) -> Val {
    if depth > 40 {
        return Val::Opaque("too deep".into());
    }
    let name = generic_name(b, ty);
    let size = size_of(b, ty);
    if cells.len() != size {
        return Val::Invalid(format!("{name}: {} cells for a type of size {size}", cells.len()));
    }
    match name.as_str() {
        "Struct" => {
            let mut out = vec![];
            let mut off = 0;
            for t in type_args(b, ty) {
                let s = size_of(b, &t);
                out.push(decode(b, &t, &cells[off..off + s], memory, depth + 1));
                off += s;
            }
            Val::Struct(out)
        }
        "Enum" => {
            let variants = type_args(b, ty);
            if variants.is_empty() {
                return Val::Invalid("empty enum inhabited".into());
            }
            let Some(idx) = variant_index(variants.len(), &cells[0]) else {
                return Val::Invalid(format!(
                    "enum selector {} invalid for {} variants",
                    cells[0],
                    variants.len()
                ));
            };
            let vs = size_of(b, &variants[idx]);
            let payload = &cells[cells.len() - vs..];
            Val::Enum { idx, val: Box::new(decode(b, &variants[idx], payload, memory, depth + 1)) }
        }
        "Array" => {
            let elem = &type_args(b, ty)[0];
            let es = size_of(b, elem);
            let (Some(start), Some(end)) =
                (cells[0].to_bigint().to_usize(), cells[1].to_bigint().to_usize())
            else {
                return Val::Invalid("array pointers not addresses".into());
            };
            if end < start {
                return Val::Invalid("array end < start".into());
            }
            if es == 0 {
                return Val::Array(vec![]);
            }
            if (end - start) % es != 0 || (end - start) / es > 100_000 {
                return Val::Invalid("array length not a multiple of element size".into());
            }
            let mut out = vec![];
            let mut a = start;
            while a < end {
                let mut ecells = vec![];
                for k in 0..es {
                    match mem(memory, a + k) {
                        Some(v) => ecells.push(v),
                        None => return Val::Invalid(format!("array cell {} unset", a + k)),
                    }
                }
                out.push(decode(b, elem, &ecells, memory, depth + 1));
                a += es;
            }
            Val::Array(out)
        }
        "Snapshot" | "NonZero" => decode(b, &type_args(b, ty)[0], cells, memory, depth + 1),
        "Box" | "Nullable" => {
            let inner = &type_args(b, ty)[0];
            let is = size_of(b, inner);
            let Some(ptr) = cells[0].to_bigint().to_usize() else {
                return Val::Invalid("box pointer not an address".into());
            };
            if name == "Nullable" && ptr == 0 {
                return Val::Null;
            }
            let mut icells = vec![];
            for k in 0..is {
                match mem(memory, ptr + k) {
                    Some(v) => icells.push(v),
                    None => return Val::Invalid(format!("boxed cell {} unset", ptr + k)),
                }
            }
            Val::Boxed(Box::new(decode(b, inner, &icells, memory, depth + 1)))
        }
        "felt252" | "u8" | "u16" | "u32" | "u64" | "u128" | "i8" | "i16" | "i32" | "i64" | "i128"
        | "bytes31" | "BoundedInt" | "ContractAddress" | "ClassHash" | "StorageAddress"
        | "StorageBaseAddress" | "Const" | "felt252_bounded" | "qm31" => {
            if size == 1 {
                Val::Scalar(cells[0])
            } else {
                Val::Struct(cells.iter().map(|c| Val::Scalar(*c)).collect())
            }
        }
        "EcPoint" | "U128MulGuarantee" => Val::Struct(cells.iter().map(|c| Val::Scalar(*c)).collect()),
        _ => {
            if size == 0 {
                Val::Struct(vec![])
            } else {
                Val::Opaque(name)
            }
        }
    }
}

/// Range of an integer-like type: (min, max) inclusive.
pub fn int_range(b: &RunnableBuilder, ty: &ConcreteTypeId) -> Option<(BigInt, BigInt)> {
    let one = BigInt::one();
    let pow = |k: u32| BigInt::one() << k;
    Some(match generic_name(b, ty).as_str() {
        "u8" => (BigInt::zero(), pow(8) - &one),
        "u16" => (BigInt::zero(), pow(16) - &one),
        "u32" => (BigInt::zero(), pow(32) - &one),
        "u64" => (BigInt::zero(), pow(64) - &one),
        "u128" => (BigInt::zero(), pow(128) - &one),
        "i8" => (-pow(7), pow(7) - &one),
        "i16" => (-pow(15), pow(15) - &one),
        "i32" => (-pow(31), pow(31) - &one),
        "i64" => (-pow(63), pow(63) - &one),
        "i128" => (-pow(127), pow(127) - &one),
        "bytes31" => (BigInt::zero(), pow(248) - &one),
        "felt252" => (BigInt::zero(), felt_prime() - &one),
        "BoundedInt" => {
            let v = value_args(b, ty);
            if v.len() != 2 {
                return None;
            }
            (v[0].clone(), v[1].clone())
        }
        _ => return None,
    })
}

pub fn felt_prime() -> BigInt {
    (BigInt::one() << 251) + (BigInt::from(17) << 192) + BigInt::one()
}

pub fn to_felt(v: &BigInt) -> Felt252 {
    let p = felt_prime();
    let mut r = v % &p;
    if r.is_negative() {
        r += &p;
    }
    Felt252::from(r)
}

thread_local! {
    /// Values forced onto the scalar leaves of the next argument vector, by leaf position
    /// (boundary sweeps); `None` = generate as usual.
    static FORCED_SCALARS: std::cell::RefCell<Vec<Option<BigInt>>> = const { std::cell::RefCell::new(Vec::new()) };
    static SCALAR_POS: std::cell::Cell<usize> = const { std::cell::Cell::new(0) };
}

/// The boundary set used by `pick_in_range`, folded into [lo, hi] and de-duplicated.
pub fn boundary_candidates(lo: &BigInt, hi: &BigInt) -> Vec<BigInt> {
    let span = hi - lo;
    let m = &span + 1;
    let mut seen = std::collections::BTreeSet::new();
    raw_candidates(lo, hi)
        .into_iter()
        .map(|v| if &v < lo || &v > hi { lo + ((v - lo) % &m + &m) % &m } else { v })
        .filter(|v| seen.insert(v.clone()))
        .collect()
}

/// The inclusive ranges of the scalar leaves of the user parameters of `func`, in the order
/// `gen_args` meets them (struct members flattened; enum payloads, arrays and NonZero skipped).
pub fn scalar_leaf_ranges(b: &RunnableBuilder, func: &cairo_lang_sierra::program::Function) -> Vec<(BigInt, BigInt)> {
    fn walk(b: &RunnableBuilder, ty: &ConcreteTypeId, out: &mut Vec<(BigInt, BigInt)>, depth: usize) -> bool {
        if depth > 8 {
            return false;
        }
        if let Some(r) = int_range(b, ty) {
            out.push(r);
            return true;
        }
        match generic_name(b, ty).as_str() {
            "Struct" => type_args(b, ty).iter().all(|t| walk(b, t, out, depth + 1)),
            "Snapshot" => walk(b, &type_args(b, ty)[0], out, depth + 1),
            // Position tracking stops at the first leaf whose count depends on random choices.
            _ => false,
        }
    }
    let mut out = vec![];
    for p in &func.signature.param_types {
        let gid = &b.type_long_id(p).generic_id;
        if !b.is_user_arg_type(gid) {
            continue;
        }
        if !walk(b, p, &mut out, 0) {
            break;
        }
    }
    out
}

/// `gen_args` with the scalar leaf at position `pos` forced to `value` (if it lies in the leaf's range).
pub fn gen_args_forced(
    b: &RunnableBuilder,
    func: &cairo_lang_sierra::program::Function,
    rng: &mut Rng,
    pos: usize,
    value: &BigInt,
) -> Option<(Vec<Arg>, String)> {
    FORCED_SCALARS.with(|f| {
        let mut f = f.borrow_mut();
        f.clear();
        f.resize(pos + 1, None);
        f[pos] = Some(value.clone());
    });
    SCALAR_POS.with(|p| p.set(0));
    let r = gen_args(b, func, rng);
    FORCED_SCALARS.with(|f| f.borrow_mut().clear());
    r
}

fn raw_candidates(lo: &BigInt, hi: &BigInt) -> Vec<BigInt> {
    let mut cands: Vec<BigInt> = vec![
        lo.clone(),
        lo + 1,
        lo + 2,
        hi.clone(),
        hi - 1,
        hi - 2,
        BigInt::zero(),
        BigInt::one(),
        BigInt::from(2),
        BigInt::from(-1),
        BigInt::from(-2),
    ];
    for k in [7u32, 8, 15, 16, 31, 32, 63, 64, 127, 128, 250] {
        let p = BigInt::one() << k;
        cands.push(p.clone());
        cands.push(&p - 1);
        cands.push(&p + 1);
        cands.push(-&p);
    }
    cands
}

/// A value from the boundary set of [lo, hi], or a random one.
pub fn pick_in_range(rng: &mut Rng, lo: &BigInt, hi: &BigInt, nonzero: bool) -> BigInt {
    let span = hi - lo;
    let cands = raw_candidates(lo, hi);
    let v = if rng.chance(2, 3) {
        rng.pick(&cands).clone()
    } else {
        // Random of a random bit length.
        let bits = 1 + rng.below(span.bits().max(1) as usize);
        let mut r = BigInt::zero();
        for _ in 0..bits.div_ceil(64) {
            r = (r << 64) + BigInt::from(rng.next_u64());
        }
        r %= BigInt::one() << bits;
        lo + (r % (&span + 1))
    };
    let mut v = if &v < lo || &v > hi { lo + ((v - lo) % (&span + 1) + (&span + 1)) % (&span + 1) } else { v };
    if nonzero && v.is_zero() {
        v = if hi >= &BigInt::one() { BigInt::one() } else { lo.clone() };
        if v.is_zero() {
            v = hi.clone();
        }
    }
    v
}

/// Generates the runner arguments of one parameter of type `ty`; None if the type is not
/// constructible from the outside (boxes, dicts, EC points, ...).
pub fn gen_arg(
    b: &RunnableBuilder,
    ty: &ConcreteTypeId,
    rng: &mut Rng,
    nonzero: bool,
    depth: usize,
    desc: &mut String,
) -> Option<Vec<Arg>> {
    if depth > 8 {
        return None;
    }
    let name = generic_name(b, ty);
    if let Some((lo, hi)) = int_range(b, ty) {
        if nonzero && lo.is_zero() && hi.is_zero() {
            return None;
        }
        let mut v = pick_in_range(rng, &lo, &hi, nonzero);
        let pos = SCALAR_POS.with(|p| {
            let v = p.get();
            p.set(v + 1);
            v
        });
        if let Some(f) = FORCED_SCALARS.with(|f| f.borrow().get(pos).cloned().flatten()) {
            if f >= lo && f <= hi && !(nonzero && f.is_zero()) {
                v = f;
            }
        }
        desc.push_str(&format!("{v} "));
        return Some(vec![Arg::Value(to_felt(&v))]);
    }
    match name.as_str() {
        "Struct" => {
            let mut out = vec![];
            desc.push('(');
            for t in type_args(b, ty) {
                out.extend(gen_arg(b, &t, rng, nonzero, depth + 1, desc)?);
            }
            desc.push(')');
            Some(out)
        }
        "Enum" => {
            let variants = type_args(b, ty);
            if variants.is_empty() {
                return None;
            }
            let size = size_of(b, ty);
            let idx = rng.below(variants.len());
            desc.push_str(&format!("v{idx}["));
            let payload = gen_arg(b, &variants[idx], rng, false, depth + 1, desc)?;
            desc.push(']');
            // Arrays inside enum payloads need pointer cells the runner allocates: only flat
            // payloads are supported here.
            let payload_size: usize = payload.iter().map(|a| a.size()).sum();
            if payload.iter().any(|a| !matches!(a, Arg::Value(_))) && payload_size + 1 != size {
                return None;
            }
            let mut out = vec![Arg::Value(Felt252::from(variant_selector(variants.len(), idx) as u64))];
            for _ in 0..(size - 1 - payload_size) {
                out.push(Arg::Value(Felt252::from(0u8)));
            }
            out.extend(payload);
            Some(out)
        }
        "Array" => {
            let elem = &type_args(b, ty)[0];
            let n = *rng.pick(&[0usize, 1, 2, 3, 5, 8]);
            let mut out = vec![];
            desc.push('[');
            for _ in 0..n {
                out.extend(gen_arg(b, elem, rng, false, depth + 1, desc)?);
            }
            desc.push(']');
            Some(vec![Arg::Array(out)])
        }
        "Snapshot" => gen_arg(b, &type_args(b, ty)[0], rng, nonzero, depth + 1, desc),
        "NonZero" => gen_arg(b, &type_args(b, ty)[0], rng, true, depth + 1, desc),
        // A coupon stands for gas somebody paid: it cannot be conjured by the caller.
        "Coupon" => None,
        _ => {
            if size_of(b, ty) == 0 {
                Some(vec![])
            } else {
                None
            }
        }
    }
}

/// Generates an argument vector for the user parameters of `func`. Returns the args and a
/// printable description, or None if a parameter type is not supported.
pub fn gen_args(
    b: &RunnableBuilder,
    func: &cairo_lang_sierra::program::Function,
    rng: &mut Rng,
) -> Option<(Vec<Arg>, String)> {
    let mut args = vec![];
    let mut desc = String::new();
    for p in &func.signature.param_types {
        let gid = &b.type_long_id(p).generic_id;
        if !b.is_user_arg_type(gid) {
            continue;
        }
        args.extend(gen_arg(b, p, rng, false, 0, &mut desc)?);
        desc.push_str("; ");
    }
    Some((args, desc))
}

/// Decoded result of a run of `func`: Ok(value) for success, Err(panic data) for a panic.
pub fn decode_result(
    b: &RunnableBuilder,
    func: &cairo_lang_sierra::program::Function,
    success_cells: &[Felt252],
    memory: &[Option<Felt252>],
) -> Val {
    // The user-visible return type is the last non-implicit return type; if it is a PanicResult
    // the cells are those of the inner type (a tuple struct wrapping the value).
    let Some(ret) = func.signature.ret_types.last() else {
        return Val::Struct(vec![]);
    };
    let long = b.type_long_id(ret);
    let inner: Option<ConcreteTypeId> = match (long.generic_args.first(), long.generic_args.get(1)) {
        (Some(GenericArg::UserType(ut)), Some(GenericArg::Type(t)))
            if long.generic_id.0 == "Enum"
                && ut
                    .debug_name
                    .as_ref()
                    .is_some_and(|n| n.starts_with("core::panics::PanicResult::")) =>
        {
            Some(t.clone())
        }
        _ => None,
    };
    let ty = inner.as_ref().unwrap_or(ret);
    if !b.is_user_arg_type(&b.type_long_id(ty).generic_id) {
        return Val::Struct(vec![]);
    }
    let v = decode(b, ty, success_cells, memory, 0);
    // A panic wrapper carries the value as a one-element tuple.
    match (inner.is_some(), v) {
        (true, Val::Struct(mut items)) if items.len() == 1 => items.pop().unwrap(),
        (_, v) => v,
    }
}
