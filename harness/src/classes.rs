//! C19: a compiled Starknet class is consistent with, and reproducible from, its Sierra.
//! Static invariants on `CasmContractClass` plus a dynamic oracle: every entry point is executed
//! from the class's own bytecode, laid out the way the OS lays it out.

use std::collections::{BTreeSet, HashSet};
use std::path::PathBuf;

use cairo_lang_compiler::CompilerConfig;
use cairo_lang_compiler::db::RootDatabase;
use cairo_lang_compiler::diagnostics::DiagnosticsReporter;
use cairo_lang_compiler::project::setup_project;
use cairo_lang_defs::ids::TopLevelLanguageElementId;
use cairo_lang_filesystem::ids::CrateInput;
use cairo_lang_runner::casm_run::{CairoHintProcessor, build_cairo_runner};
use cairo_lang_runner::{StarknetState, build_hints_dict, token_gas_cost};
use cairo_lang_sierra::extensions::gas::CostTokenType;
use cairo_lang_sierra::program::Program;
use cairo_lang_starknet::compile::compile_prepared_db;
use cairo_lang_starknet::contract::find_contracts;
use cairo_lang_starknet_classes::NestedIntList;
use cairo_lang_starknet_classes::casm_contract_class::{CasmContractClass, CasmContractEntryPoint};
use cairo_lang_starknet_classes::contract_class::ContractClass;
use cairo_vm::types::builtin_name::BuiltinName;
use cairo_vm::types::relocatable::{MaybeRelocatable, Relocatable};
use cairo_vm::vm::runners::cairo_runner::{CairoArg, RunResources};
use num_bigint::BigUint;
use num_traits::ToPrimitive;
use rayon::prelude::*;
use serde_json::json;
use starknet_types_core::felt::Felt as Felt252;

use crate::comp::{self, Config, Plugins};
use crate::frontend::{guarded, install_panic_hook, panic_sig};
use crate::report::{Ctx, ShardResult};
use crate::rng::{Rng, fnv_str};
use crate::values::felt_prime;

const PROTOCOL_ORDER: &[&str] = &[
    "pedersen",
    "range_check",
    "bitwise",
    "ec_op",
    "poseidon",
    "segment_arena",
    "range_check96",
    "add_mod",
    "mul_mod",
];

fn builtin_name_of_type(generic: &str) -> Option<&'static str> {
    Some(match generic {
        "Pedersen" => "pedersen",
        "RangeCheck" => "range_check",
        "Bitwise" => "bitwise",
        "EcOp" => "ec_op",
        "Poseidon" => "poseidon",
        "SegmentArena" => "segment_arena",
        "RangeCheck96" => "range_check96",
        "AddMod" => "add_mod",
        "MulMod" => "mul_mod",
        _ => return None,
    })
}

/// Compiles every contract of a project directory under a configuration.
pub fn compile_project_contracts(cfg: &Config, path: &str) -> Result<Vec<(String, ContractClass)>, String> {
    let mut db: RootDatabase = comp::build_db(cfg, Plugins::Starknet);
    let inputs = setup_project(&mut db, &PathBuf::from(path)).map_err(|e| format!("{e}"))?;
    compile_crates_contracts(&db, inputs)
}

pub fn compile_crates_contracts(db: &RootDatabase, inputs: Vec<CrateInput>) -> Result<Vec<(String, ContractClass)>, String> {
    let ids = CrateInput::into_crate_ids(db, inputs.clone());
    let contracts = find_contracts(db, &ids);
    let names: Vec<String> = contracts.iter().map(|c| c.submodule_id.full_path(db)).collect();
    let refs: Vec<_> = contracts.iter().collect();
    let mut diag = String::new();
    let classes = compile_prepared_db(
        db,
        &refs,
        CompilerConfig {
            diagnostics_reporter: DiagnosticsReporter::write_to_string(&mut diag).with_crates(&inputs).allow_warnings(),
            replace_ids: true,
            ..Default::default()
        },
    )
    .map_err(|e| format!("{e}\n{diag}"))?;
    Ok(names.into_iter().zip(classes).collect())
}

/// Independent walk over the bytecode with the VM's decoder: the set of instruction start offsets
/// in `[0, code_len)`.
fn instruction_boundaries(class: &CasmContractClass, code_len: usize) -> Result<HashSet<usize>, String> {
    let mut set = HashSet::new();
    let mut pc = 0usize;
    while pc < code_len {
        set.insert(pc);
        let w = class.bytecode[pc].value.to_u128().ok_or(format!("word at {pc} is not an instruction word"))?;
        let ins = cairo_vm::vm::decoding::decoder::decode_instruction(w)
            .map_err(|e| format!("word at {pc} does not decode: {e}"))?;
        pc += ins.size();
    }
    if pc != code_len {
        return Err(format!("instruction walk ends at {pc}, code ends at {code_len}"));
    }
    Ok(set)
}

fn flatten_lengths(l: &NestedIntList, out: &mut Vec<usize>) {
    match l {
        NestedIntList::Leaf(n) => out.push(*n),
        NestedIntList::Node(v) => v.iter().for_each(|x| flatten_lengths(x, out)),
    }
}

/// The static invariants. Returns the first failure as (sig, description).
pub fn static_invariants(class: &ContractClass, acc: &mut ShardResult) -> Result<CasmContractClass, (String, String)> {
    let err = |sig: &str, d: String| Err((sig.to_string(), d));
    // (1) The class from the published felts (through JSON) equals the class from the in-memory
    // program.
    let json_text = serde_json::to_string(class).map_err(|e| ("class-json".to_string(), e.to_string()))?;
    let published: ContractClass =
        serde_json::from_str(&json_text).map_err(|e| ("class-json".to_string(), e.to_string()))?;
    if &published != class {
        return err("class-json", "contract class JSON round trip differs".into());
    }
    let extracted = published.extract_sierra_program(false).map_err(|e| ("extract".to_string(), e.to_string()))?;
    let program: Program = extracted.program.clone();
    let (casm, debug) = CasmContractClass::from_contract_class_with_debug_info(published.clone(), extracted, false, usize::MAX)
        .map_err(|e| ("compile".to_string(), format!("published class does not compile: {e}")))?;
    let direct_extracted = class.extract_sierra_program(true).map_err(|e| ("extract".to_string(), e.to_string()))?;
    let casm_direct = CasmContractClass::from_contract_class(class.clone(), direct_extracted, false, usize::MAX)
        .map_err(|e| ("compile".to_string(), format!("class does not compile: {e}")))?;
    if casm_direct != casm {
        return err("published-vs-direct", "CASM class from the published felts differs from the one compiled from the compiler's program".into());
    }
    let prime = BigUint::from_bytes_be(&felt_prime().to_bytes_be().1);
    // (5) canonical field elements.
    if let Some(i) = casm.bytecode.iter().position(|w| w.value >= prime) {
        return err("word-not-canonical", format!("bytecode word {i} is >= P"));
    }
    let code_len = debug.sierra_statement_info.last().map(|s| s.end_offset).unwrap_or(0);
    let bounds = instruction_boundaries(&casm, code_len).map_err(|e| ("bytecode-walk".to_string(), e))?;
    acc.count("instructions_walked", bounds.len() as u64);
    // (2)(3)(4) entry points.
    for (kind, eps, src) in [
        ("external", &casm.entry_points_by_type.external, &class.entry_points_by_type.external),
        ("l1_handler", &casm.entry_points_by_type.l1_handler, &class.entry_points_by_type.l1_handler),
        ("constructor", &casm.entry_points_by_type.constructor, &class.entry_points_by_type.constructor),
    ] {
        if eps.len() != src.len() {
            return err("entry-count", format!("{kind}: {} CASM entry points for {} Sierra ones", eps.len(), src.len()));
        }
        for w in eps.windows(2) {
            if w[0].selector >= w[1].selector {
                return err("selectors-not-increasing", format!("{kind} selectors are not strictly increasing"));
            }
        }
        for (ep, sep) in eps.iter().zip(src.iter()) {
            if ep.selector != sep.selector {
                return err("selector-mismatch", format!("{kind} entry point selector differs from the Sierra class"));
            }
            let Some(func) = program.funcs.get(sep.function_idx) else {
                return err("function-index", format!("{kind} entry point names function {} which does not exist", sep.function_idx));
            };
            let want = debug.sierra_statement_info.get(func.entry_point.0).map(|s| s.start_offset);
            if Some(ep.offset) != want {
                return err("entry-offset", format!("{kind} entry point of {} has offset {} but its function starts at {want:?}", func.id, ep.offset));
            }
            if !bounds.contains(&ep.offset) {
                return err("entry-offset-boundary", format!("{kind} entry point offset {} is not an instruction boundary", ep.offset));
            }
            // Builtins: the function's builtin parameters, in signature order, which must follow
            // the protocol order.
            let mut expect = vec![];
            for ty in &func.signature.param_types {
                let generic = program
                    .type_declarations
                    .iter()
                    .find(|t| &t.id == ty)
                    .map(|t| t.long_id.generic_id.0.to_string())
                    .unwrap_or_default();
                if let Some(n) = builtin_name_of_type(&generic) {
                    expect.push(n.to_string());
                }
            }
            if ep.builtins != expect {
                return err("builtin-list", format!("{kind} entry point of {}: builtins {:?} but the function's builtin parameters are {expect:?}", func.id, ep.builtins));
            }
            let mut it = PROTOCOL_ORDER.iter();
            if !ep.builtins.iter().all(|b| it.any(|p| p == b)) {
                return err("builtin-order", format!("{kind} entry point builtins {:?} are not in protocol order", ep.builtins));
            }
            acc.count("entry_points_checked", 1);
        }
    }
    // (6) hints.
    let mut last = None;
    for (off, hs) in &casm.hints {
        if !bounds.contains(off) {
            return err("hint-offset", format!("hint offset {off} is not an instruction boundary"));
        }
        if hs.is_empty() {
            return err("hint-empty", format!("empty hint list at {off}"));
        }
        if last.is_some_and(|l| l >= *off) {
            return err("hint-order", "hint offsets are not strictly increasing".into());
        }
        last = Some(*off);
    }
    acc.count("hint_sites_checked", casm.hints.len() as u64);
    // (7) segment lengths.
    let mut lens = vec![];
    flatten_lengths(&casm.get_bytecode_segment_lengths(), &mut lens);
    if lens.iter().sum::<usize>() != casm.bytecode.len() {
        return err("segment-lengths-sum", format!("segment lengths sum to {} but the bytecode has {} words", lens.iter().sum::<usize>(), casm.bytecode.len()));
    }
    if casm.bytecode_segment_lengths.is_some() {
        let func_starts: BTreeSet<usize> = program
            .funcs
            .iter()
            .filter_map(|f| debug.sierra_statement_info.get(f.entry_point.0).map(|s| s.start_offset))
            .collect();
        let mut pos = 0usize;
        for l in &lens[..lens.len().saturating_sub(1)] {
            pos += l;
            if pos < code_len && !func_starts.contains(&pos) {
                return err("segment-split", format!("a bytecode segment ends at {pos}, which is not a function start"));
            }
        }
    }
    // (8) hashes stable under JSON round trip.
    let cj = serde_json::to_string(&casm).map_err(|e| ("casm-json".to_string(), e.to_string()))?;
    let back: CasmContractClass = serde_json::from_str(&cj).map_err(|e| ("casm-json".to_string(), e.to_string()))?;
    if back.compiled_class_hash() != casm.compiled_class_hash()
        || back.legacy_compiled_class_hash() != casm.legacy_compiled_class_hash()
    {
        return err("hash-unstable", "compiled class hash changes over a JSON round trip".into());
    }
    if back != casm {
        return err("casm-json", "CASM class JSON round trip differs".into());
    }
    // Options: pythonic hints only add the pythonic field; size limits.
    let e2 = class.extract_sierra_program(false).map_err(|e| ("extract".to_string(), e.to_string()))?;
    let with_py = CasmContractClass::from_contract_class(class.clone(), e2, true, usize::MAX)
        .map_err(|e| ("compile".to_string(), format!("pythonic hints: {e}")))?;
    let mut stripped = with_py.clone();
    stripped.pythonic_hints = None;
    if stripped != casm {
        return err("pythonic-differs", "asking for pythonic hints changes more than the pythonic_hints field".into());
    }
    if with_py.pythonic_hints.as_ref().map(|p| p.len()) != Some(casm.hints.len()) {
        return err("pythonic-count", "pythonic hints do not match the hints".into());
    }
    let size = casm.bytecode.len();
    let e3 = class.extract_sierra_program(false).map_err(|e| ("extract".to_string(), e.to_string()))?;
    match CasmContractClass::from_contract_class(class.clone(), e3, false, size) {
        Ok(c) if c == casm => {}
        Ok(_) => return err("size-limit", "compiling with max size == actual size gives a different class".into()),
        Err(e) => return err("size-limit", format!("compiling with max size == actual size fails: {e}")),
    }
    if size > 0 {
        let e4 = class.extract_sierra_program(false).map_err(|e| ("extract".to_string(), e.to_string()))?;
        if CasmContractClass::from_contract_class(class.clone(), e4, false, size - 1).is_ok() {
            return err("size-limit", "compiling with max size == actual size - 1 succeeds".into());
        }
    }
    Ok(casm)
}

// ---------------------------------------------------------------------------------------------
// Dynamic oracle.

fn vm_builtin(name: &str) -> Option<BuiltinName> {
    Some(match name {
        "pedersen" => BuiltinName::pedersen,
        "range_check" => BuiltinName::range_check,
        "bitwise" => BuiltinName::bitwise,
        "ec_op" => BuiltinName::ec_op,
        "poseidon" => BuiltinName::poseidon,
        "range_check96" => BuiltinName::range_check96,
        "add_mod" => BuiltinName::add_mod,
        "mul_mod" => BuiltinName::mul_mod,
        _ => return None,
    })
}

/// The order in which the VM expects program builtins.
const VM_ORDER: &[&str] = &[
    "pedersen", "range_check", "ecdsa", "bitwise", "ec_op", "keccak", "poseidon", "range_check96", "add_mod", "mul_mod",
];

/// Runs one entry point from the class bytecode. Ok(description of the observed return frame).
pub fn run_entry_point(casm: &CasmContractClass, ep: &CasmContractEntryPoint, calldata: &[Felt252], gas: u64) -> Result<String, String> {
    // Bytecode followed by a `ret` and the pointer to the builtin cost table, as the OS loads it.
    let mut data: Vec<MaybeRelocatable> =
        casm.bytecode.iter().map(|w| MaybeRelocatable::Int(Felt252::from(&w.value))).collect();
    let code_len = data.len();
    data.push(MaybeRelocatable::Int(Felt252::from(0x208b7fff7fff7ffeu64)));
    let (hints_dict, string_to_hint) = build_hints_dict(&casm.hints);
    let mut vm_builtins: Vec<BuiltinName> = VM_ORDER
        .iter()
        .filter(|n| ep.builtins.iter().any(|b| b == *n))
        .filter_map(|n| vm_builtin(n))
        .collect();
    vm_builtins.dedup();
    let mut runner = build_cairo_runner(data, vm_builtins.clone(), hints_dict).map_err(|e| format!("runner: {e}"))?;
    runner.initialize_function_runner_cairo_1(&vm_builtins).map_err(|e| format!("init: {e}"))?;
    // Builtin cost table.
    let cost_seg = runner.vm.add_memory_segment();
    for token in CostTokenType::iter_precost() {
        runner
            .vm
            .insert_value((cost_seg + token.offset_in_builtin_costs() as usize).unwrap(), Felt252::from(token_gas_cost(*token)))
            .map_err(|e| format!("cost table: {e}"))?;
    }
    let program_base = Relocatable::from((0, 0));
    runner
        .vm
        .insert_value((program_base + (code_len + 1)).unwrap(), cost_seg)
        .map_err(|e| format!("cost pointer: {e}"))?;
    // Arguments: builtins in the DECLARED order, gas, syscall pointer, calldata span.
    let mut args: Vec<CairoArg> = vec![];
    let mut initial: Vec<(String, Relocatable)> = vec![];
    for b in &ep.builtins {
        if b == "segment_arena" {
            let info = runner.vm.add_memory_segment();
            let arena = runner.vm.add_memory_segment();
            runner.vm.insert_value(arena, info).map_err(|e| e.to_string())?;
            runner.vm.insert_value((arena + 1usize).unwrap(), Felt252::from(0)).map_err(|e| e.to_string())?;
            runner.vm.insert_value((arena + 2usize).unwrap(), Felt252::from(0)).map_err(|e| e.to_string())?;
            let p = (arena + 3usize).unwrap();
            initial.push((b.clone(), p));
            args.push(CairoArg::Single(p.into()));
            continue;
        }
        let name = vm_builtin(b).ok_or(format!("entry point declares unknown builtin {b}"))?;
        let br = runner
            .vm
            .get_builtin_runners()
            .iter()
            .find(|r| r.name() == name)
            .ok_or(format!("VM has no runner for {b}"))?;
        let p = Relocatable::from((br.base() as isize, 0));
        initial.push((b.clone(), p));
        args.push(CairoArg::Single(p.into()));
    }
    args.push(CairoArg::Single(MaybeRelocatable::Int(Felt252::from(gas))));
    let syscall_seg = runner.vm.add_memory_segment();
    args.push(CairoArg::Single(syscall_seg.into()));
    let calldata_seg = runner.vm.add_memory_segment();
    for (i, v) in calldata.iter().enumerate() {
        runner.vm.insert_value((calldata_seg + i).unwrap(), *v).map_err(|e| e.to_string())?;
    }
    args.push(CairoArg::Single(calldata_seg.into()));
    args.push(CairoArg::Single((calldata_seg + calldata.len()).unwrap().into()));
    let arg_refs: Vec<&CairoArg> = args.iter().collect();
    let mut hp = CairoHintProcessor {
        runner: None,
        user_args: vec![],
        string_to_hint,
        starknet_state: StarknetState::default(),
        run_resources: RunResources::new(5_000_000),
        syscalls_used_resources: Default::default(),
        no_temporary_segments: true,
        markers: Default::default(),
        panic_traceback: Default::default(),
    };
    runner
        .run_from_entrypoint(ep.offset, &arg_refs, false, None, &mut hp)
        .map_err(|e| format!("VM error: {e}"))?;
    // Return frame: [builtins..., gas, syscall_ptr, panic flag, data start, data end].
    let ap = runner.vm.get_ap();
    let n = ep.builtins.len() + 5;
    let base = (ap - n).map_err(|e| format!("return frame: {e}"))?;
    let get = |i: usize| -> Result<MaybeRelocatable, String> {
        runner.vm.get_maybe(&(base + i).unwrap()).ok_or(format!("return cell {i} unset"))
    };
    for (i, (name, init)) in initial.iter().enumerate() {
        match get(i)? {
            MaybeRelocatable::RelocatableValue(r) => {
                if r.segment_index != init.segment_index {
                    return Err(format!(
                        "returned {name} pointer {r} is not in the {name} segment (initial {init})"
                    ));
                }
                if r.offset < init.offset {
                    return Err(format!("returned {name} pointer {r} moved backwards from {init}"));
                }
            }
            MaybeRelocatable::Int(v) => return Err(format!("returned {name} pointer is the felt {v}")),
        }
    }
    let k = ep.builtins.len();
    let gas_left = match get(k)? {
        MaybeRelocatable::Int(v) => v,
        _ => return Err("returned gas is a pointer".into()),
    };
    // The caller pre-pays the entry point cost, which the callee may redeposit: the returned
    // counter can exceed the counter passed in, so only its being a field element is required.
    match get(k + 1)? {
        MaybeRelocatable::RelocatableValue(r) if r.segment_index == syscall_seg.segment_index => {}
        other => return Err(format!("returned syscall pointer {other:?} is not in the syscall segment")),
    }
    let flag = match get(k + 2)? {
        MaybeRelocatable::Int(v) if v == Felt252::from(0) || v == Felt252::from(1) => v,
        other => return Err(format!("panic flag is {other:?}")),
    };
    match (get(k + 3)?, get(k + 4)?) {
        (MaybeRelocatable::RelocatableValue(a), MaybeRelocatable::RelocatableValue(b))
            if a.segment_index == b.segment_index && b.offset >= a.offset =>
        {
            Ok(format!("flag={flag} data_len={} gas_left={gas_left}", b.offset - a.offset))
        }
        (a, b) => Err(format!("result span is ({a:?}, {b:?})")),
    }
}

// ---------------------------------------------------------------------------------------------
// W6: generated contracts.

pub fn generate_contract(rng: &mut Rng, idx: u64) -> String {
    let n_ext = 1 + rng.below(6);
    let mut s = String::new();
    s.push_str("#[starknet::interface]\ntrait IGen<T> {\n");
    let mut bodies = vec![];
    for i in 0..n_ext {
        let kind = rng.below(14);
        let (sig, body) = match kind {
            9 => (format!("fn f{i}(self: @T, m: felt252) -> felt252"), "{ let p = EcPointTrait::new_from_x(1).unwrap(); let mut s = EcStateTrait::init(); s.add_mul(m, p.try_into().unwrap()); s.add(p.try_into().unwrap()); match s.finalize_nz() { Option::Some(r) => r.x(), Option::None => 0 } }".to_string()),
            10 => (format!("fn f{i}(self: @T, a: felt252, b: u128) -> felt252"), "{ let h = core::pedersen::pedersen(a, b.into()); let q = core::poseidon::poseidon_hash_span([h, a].span()); let w: u128 = (b & 255) ^ 7; q + w.into() }".to_string()),
            11 => (format!("fn f{i}(self: @T, a: u64, b: u64) -> u128"), "{ let in1 = CircuitElement::<CircuitInput<0>> {}; let in2 = CircuitElement::<CircuitInput<1>> {}; let add = circuit_add(in1, in2); let mul = circuit_mul(add, in2); let modulus = TryInto::<_, CircuitModulus>::try_into([7, 0, 0, 0]).unwrap(); let a96: u96 = core::internal::bounded_int::upcast(a); let b96: u96 = core::internal::bounded_int::upcast(b); let outputs = (mul,).new_inputs().next([a96, 0, 0, 0]).next([b96, 0, 0, 0]).done().eval(modulus).unwrap(); let r: u96 = outputs.get_output(mul).limb0; core::internal::bounded_int::upcast::<u96, u128>(r) }".to_string()),
            12 => (format!("fn f{i}(self: @T, a: u256, b: u256) -> u256"), "core::keccak::keccak_u256s_le_inputs([a, b].span())".to_string()),
            13 => (format!("fn f{i}(ref self: T, a: felt252, k: u8) -> felt252"), "{ let mut d: Felt252Dict<felt252> = Default::default(); d.insert(k.into(), a); let h = core::pedersen::pedersen(d.get(k.into()), self.x.read()); self.x.write(h); let m: u8 = k & 3; h + m.into() }".to_string()),
            0 => (format!("fn f{i}(self: @T, a: felt252, b: felt252) -> felt252"), "core::pedersen::pedersen(a, b)".to_string()),
            1 => (format!("fn f{i}(self: @T, a: felt252, b: felt252) -> felt252"), "core::poseidon::poseidon_hash_span([a, b].span())".to_string()),
            2 => (format!("fn f{i}(self: @T, a: u128, b: u128) -> u128"), "(a & b) | (a ^ b)".to_string()),
            3 => (format!("fn f{i}(self: @T, a: u64, b: u64) -> u64"), "a / (b | 1) + a % (b | 1)".to_string()),
            4 => (format!("fn f{i}(ref self: T, a: felt252)"), "self.x.write(a + self.x.read());".to_string()),
            5 => (format!("fn f{i}(self: @T, a: Array<u32>) -> u32"), "{ let mut t = 0_u32; for v in a { t = t ^ v; }; t }".to_string()),
            6 => (format!("fn f{i}(self: @T, k: felt252, v: u8) -> u8"), "{ let mut d: Felt252Dict<u8> = Default::default(); d.insert(k, v); d.get(k) + d.get(0) }".to_string()),
            7 => (format!("fn f{i}(self: @T, a: u256, b: u256) -> u256"), "core::num::traits::WrappingAdd::wrapping_add(a, b)".to_string()),
            _ => (format!("fn f{i}(self: @T) -> felt252"), "self.x.read()".to_string()),
        };
        s.push_str(&format!("    {sig};\n"));
        bodies.push((sig.replace(": @T", ": @ContractState").replace(": T", ": ContractState"), body));
    }
    s.push_str("}\n\n#[starknet::contract]\nmod gen_contract {\n    #[allow(unused_imports)]\n    use starknet::storage::{StoragePointerReadAccess, StoragePointerWriteAccess};\n    #[allow(unused_imports)]\n    use core::dict::{Felt252Dict, Felt252DictTrait};\n    #[allow(unused_imports)]\n    use core::ec::{EcPointTrait, EcStateTrait};\n    #[allow(unused_imports)]\n    use core::circuit::{CircuitElement, CircuitInput, circuit_add, circuit_mul, EvalCircuitTrait, u96, CircuitOutputsTrait, CircuitModulus, AddInputResultTrait, CircuitInputs};\n    #[storage]\n    struct Storage { x: felt252 }\n");
    if rng.bool() {
        s.push_str("    #[constructor]\n    fn constructor(ref self: ContractState, init: felt252) { self.x.write(init); }\n");
    }
    // Zero to three L1 handlers, declared in a seeded order of seeded names (so that declaration
    // order and selector order disagree in some contracts).
    if rng.chance(1, 2) {
        let n = 1 + rng.below(3);
        let mut names: Vec<String> = (0..n).map(|k| format!("on_l1_{}{}", ["msg", "deposit", "x", "withdraw_all", "q"][rng.below(5)], k)).collect();
        for i in (1..names.len()).rev() {
            names.swap(i, rng.below(i + 1));
        }
        for name in names {
            s.push_str(&format!("    #[l1_handler]\n    fn {name}(ref self: ContractState, from_address: felt252, v: felt252) {{ self.x.write(v + from_address); }}\n"));
        }
    }
    s.push_str("    #[abi(embed_v0)]\n    impl Gen of super::IGen<ContractState> {\n");
    for (sig, body) in bodies {
        s.push_str(&format!("        {sig} {{ {body} }}\n"));
    }
    s.push_str("    }\n}\n");
    let _ = idx;
    s
}

// ---------------------------------------------------------------------------------------------

fn check_class(acc: &mut ShardResult, name: &str, class: &ContractClass, seed: u64, replay: serde_json::Value) {
    acc.eval();
    let casm = match guarded(|| {
        let mut local = ShardResult::default();
        let r = static_invariants(class, &mut local);
        (r, local)
    }) {
        Ok((Ok(c), local)) => {
            acc.merge(local);
            c
        }
        Ok((Err((sig, desc)), _)) => {
            acc.violation(&sig, &format!("{name}: {desc}"), replay);
            return;
        }
        Err((loc, msg)) => {
            acc.violation(&panic_sig(&loc, &msg), &format!("{name}: panic at {loc}: {msg}"), replay);
            return;
        }
    };
    acc.nontrivial(fnv_str(&format!("static|{name}|{}", casm.bytecode.len())));
    // Dynamic oracle on every entry point.
    let mut rng = Rng::derive(seed, &[19, fnv_str(name)]);
    let all: Vec<(&str, &CasmContractEntryPoint)> = casm
        .entry_points_by_type
        .external
        .iter()
        .map(|e| ("external", e))
        .chain(casm.entry_points_by_type.l1_handler.iter().map(|e| ("l1_handler", e)))
        .chain(casm.entry_points_by_type.constructor.iter().map(|e| ("constructor", e)))
        .collect();
    for (kind, ep) in all {
        for variant in 0..3 {
            let calldata: Vec<Felt252> = match variant {
                0 => vec![],
                1 => (0..1 + rng.below(6)).map(|_| Felt252::from(rng.below(1000) as u64)).collect(),
                _ => (0..40).map(|_| Felt252::from(rng.next_u64())).collect(),
            };
            let gas = if variant == 2 && rng.bool() { 10_000 + rng.below(50_000) as u64 } else { 10_000_000_000 };
            acc.eval();
            match guarded(|| run_entry_point(&casm, ep, &calldata, gas)) {
                Ok(Ok(desc)) => {
                    acc.count("entry_point_runs_ok", 1);
                    acc.nontrivial(fnv_str(&format!("run|{name}|{}|{variant}", ep.selector)));
                    acc.set_add("builtin_lists_run", &ep.builtins.join(","));
                    if variant == 1 && ep.offset % 7 == 0 {
                        acc.sample(json!({"contract": name, "kind": kind, "offset": ep.offset, "builtins": ep.builtins, "calldata_len": calldata.len(), "result": desc}));
                    }
                }
                Ok(Err(e)) => {
                    acc.violation(
                        &format!("run:{}", e.chars().filter(|c| !c.is_ascii_digit()).take(40).collect::<String>()),
                        &format!("{name}: {kind} entry point at offset {} with builtins {:?}, calldata of {} felts, gas {gas}: {e}", ep.offset, ep.builtins, calldata.len()),
                        replay.clone(),
                    );
                    return;
                }
                Err((loc, msg)) => {
                    acc.inconclusive(&format!("panic in entry point run harness: {}", panic_sig(&loc, &msg)));
                }
            }
        }
    }
}

pub const CONTRACT_PROJECTS: &[&str] = &["/repo/crates/cairo-lang-starknet/cairo_level_tests"];

pub fn c19_worker(ctx: &mut Ctx) {
    install_panic_hook();
    let cfgs: Vec<Config> = ctx.tier.pick(
        vec![Config::DEFAULT],
        vec![
            Config::DEFAULT,
            Config { opt: Some((crate::comp::Inl::Avoid, false)), ..Config::DEFAULT },
            Config { opt: Some((crate::comp::Inl::Small(5000), false)), ..Config::DEFAULT },
            Config::DISABLED,
        ],
    );
    // W3: the repo's contracts.
    for cfg in &cfgs {
        for proj in CONTRACT_PROJECTS {
            match guarded(|| compile_project_contracts(cfg, proj)) {
                Ok(Ok(classes)) => {
                    ctx.count("repo_contracts_compiled", classes.len() as u64);
                    let results: Vec<ShardResult> = classes
                        .par_iter()
                        .map(|(name, class)| {
                            let mut acc = ShardResult::default();
                            check_class(&mut acc, &format!("{name} [{}]", cfg.name()), class, ctx.seed,
                                json!({"kind": "repo", "project": proj, "contract": name, "cfg": cfg}));
                            acc
                        })
                        .collect();
                    for r in results {
                        ctx.absorb(r);
                    }
                }
                Ok(Err(e)) => ctx.harness_error(format!("contracts of {proj} did not compile: {}", e.chars().take(300).collect::<String>())),
                Err((loc, msg)) => ctx.harness_error(format!("panic compiling {proj}: {loc}: {msg}")),
            }
        }
        ctx.flush();
    }
    // Stored contract classes of the repo (published JSONs).
    let corpus = crate::sierra_mut::load_corpus(0);
    let results: Vec<ShardResult> = corpus
        .classes
        .par_iter()
        .map(|(name, class)| {
            let mut acc = ShardResult::default();
            // Stored classes may have been produced by older compiler versions: only classes of
            // the current Sierra version are in the domain of the reproducibility checks.
            check_class(&mut acc, &format!("stored {name}"), class, ctx.seed, json!({"kind": "stored", "name": name}));
            acc
        })
        .collect();
    for r in results {
        ctx.absorb(r);
    }
    // W6: generated contracts.
    let n_gen: u64 = ctx.tier.pick(24, 400);
    let gens: Vec<u64> = (0..n_gen).collect();
    let seed = ctx.seed;
    let results: Vec<ShardResult> = gens
        .par_iter()
        .map(|i| {
            let mut acc = ShardResult::default();
            let mut rng = Rng::derive(seed, &[1906, *i]);
            let code = generate_contract(&mut rng, *i);
            let cfg = if i % 3 == 0 { Config { opt: Some((crate::comp::Inl::Avoid, false)), ..Config::DEFAULT } } else { Config::DEFAULT };
            let r = guarded(|| {
                let db = comp::build_db(&cfg, Plugins::Starknet);
                let c = comp::virtual_crate("gen", &code, &comp::latest_settings(), None);
                compile_crates_contracts(&db, vec![c])
            });
            match r {
                Ok(Ok(classes)) => {
                    acc.count("generated_contracts_compiled", 1);
                    for (name, class) in classes {
                        check_class(&mut acc, &format!("generated#{i} {name}"), &class, seed,
                            json!({"kind": "generated", "i": i, "seed": seed, "code": code, "cfg": cfg}));
                    }
                }
                Ok(Err(e)) => acc.inconclusive(&format!("generated contract rejected by the front end: {}", e.lines().nth(1).unwrap_or("").chars().take(60).collect::<String>())),
                Err((loc, msg)) => acc.inconclusive(&format!("panic compiling generated contract: {}", panic_sig(&loc, &msg))),
            }
            acc
        })
        .collect();
    for r in results {
        ctx.absorb(r);
    }
}

pub fn c19_replay(case: &serde_json::Value) -> Result<Option<String>, String> {
    install_panic_hook();
    let mut acc = ShardResult::default();
    match case["kind"].as_str().unwrap_or("") {
        "repo" => {
            let cfg: Config = serde_json::from_value(case["cfg"].clone()).map_err(|e| e.to_string())?;
            let classes = compile_project_contracts(&cfg, case["project"].as_str().ok_or("no project")?)?;
            let want = case["contract"].as_str().ok_or("no contract")?;
            let (n, c) = classes.iter().find(|(n, _)| n == want).ok_or("contract not found")?;
            check_class(&mut acc, n, c, 1, case.clone());
        }
        "stored" => {
            let corpus = crate::sierra_mut::load_corpus(0);
            let want = case["name"].as_str().ok_or("no name")?;
            let (n, c) = corpus.classes.iter().find(|(n, _)| n == want).ok_or("class not found")?;
            check_class(&mut acc, n, c, 1, case.clone());
        }
        "generated" => {
            let cfg: Config = serde_json::from_value(case["cfg"].clone()).map_err(|e| e.to_string())?;
            let code = case["code"].as_str().ok_or("no code")?;
            let db = comp::build_db(&cfg, Plugins::Starknet);
            let c = comp::virtual_crate("gen", code, &comp::latest_settings(), None);
            for (n, class) in compile_crates_contracts(&db, vec![c])? {
                check_class(&mut acc, &n, &class, case["seed"].as_u64().unwrap_or(1), case.clone());
            }
        }
        k => return Err(format!("unknown replay kind {k}")),
    }
    Ok(acc.violations.first().map(|v| format!("{}: {}", v.sig, v.desc)))
}
