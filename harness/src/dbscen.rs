//! Database scenarios: determinism across schedules (C12), incremental vs from-scratch (C13),
//! crate cache vs source (C20).

use std::collections::{BTreeMap, BTreeSet};
use std::path::{Path, PathBuf};
use std::sync::atomic::{AtomicU64, Ordering};

use cairo_lang_compiler::db::RootDatabase;
use cairo_lang_compiler::diagnostics::DiagnosticsReporter;
use cairo_lang_compiler::project::setup_project;
use cairo_lang_compiler::{CompilerConfig, compile_prepared_db_program, compile_prepared_db_program_artifact};
use cairo_lang_filesystem::db::{FilesGroup, files_group_input, set_crate_configs_input};
use cairo_lang_filesystem::ids::{BlobLongId, CrateInput, FileLongId};
use cairo_lang_filesystem::override_file_content;
use cairo_lang_lowering::cache::generate_crate_cache;
use cairo_lang_semantic::corelib::CorelibSemantic;
use cairo_lang_sierra::program::Program;
use cairo_lang_sierra_generator::canonical_id_replacer::CanonicalReplacer;
use cairo_lang_sierra_generator::replace_ids::SierraIdReplacer;
use cairo_lang_utils::{Intern, verif};
use salsa::Database;
use serde_json::json;

use crate::comp::{self, Config, Inl, Plugins};
use crate::frontend::{guarded, install_panic_hook, panic_sig};
use crate::report::Ctx;
use crate::rng::{Rng, fnv, fnv_str};

// ---------------------------------------------------------------------------------------------
// Counting salsa's `executing query` events (the technique of tests/benches/ls_reexec.rs).

static EXECUTED: AtomicU64 = AtomicU64::new(0);

struct CountingSubscriber;
struct MsgVisitor(bool);
impl tracing::field::Visit for MsgVisitor {
    fn record_debug(&mut self, field: &tracing::field::Field, value: &dyn std::fmt::Debug) {
        if field.name() == "message" && format!("{value:?}").contains("executing query") {
            self.0 = true;
        }
    }
}
impl tracing::Subscriber for CountingSubscriber {
    fn enabled(&self, md: &tracing::Metadata<'_>) -> bool {
        md.target().starts_with("salsa") && *md.level() <= tracing::Level::INFO
    }
    fn new_span(&self, _: &tracing::span::Attributes<'_>) -> tracing::span::Id {
        tracing::span::Id::from_u64(1)
    }
    fn record(&self, _: &tracing::span::Id, _: &tracing::span::Record<'_>) {}
    fn record_follows_from(&self, _: &tracing::span::Id, _: &tracing::span::Id) {}
    fn event(&self, event: &tracing::Event<'_>) {
        let mut v = MsgVisitor(false);
        event.record(&mut v);
        if v.0 {
            EXECUTED.fetch_add(1, Ordering::Relaxed);
        }
    }
    fn enter(&self, _: &tracing::span::Id) {}
    fn exit(&self, _: &tracing::span::Id) {}
}

pub fn install_query_counter() {
    let _ = tracing::subscriber::set_global_default(CountingSubscriber);
}
fn executed() -> u64 {
    EXECUTED.load(Ordering::Relaxed)
}

// ---------------------------------------------------------------------------------------------
// Projects.

#[derive(Clone, Copy, Debug, PartialEq, Eq)]
pub enum Project {
    Examples,
    BugSamples,
    StarknetTests,
    /// /verif's own multi-module library: structs, enums, traits, impls, consts and generic
    /// functions with plenty of lines whose order matters.
    Playground,
    /// Like the playground, but with standing ownership errors: its lowering diagnostics carry
    /// notes with their own locations ("variable was previously used here").
    PlaygroundErrors,
}
impl Project {
    pub fn path(self) -> &'static str {
        match self {
            Project::Examples => "/repo/examples",
            Project::BugSamples => "/repo/tests/bug_samples",
            Project::StarknetTests => "/repo/crates/cairo-lang-starknet/cairo_level_tests",
            Project::Playground => "/verif/harness/projects/playground",
            Project::PlaygroundErrors => "/verif/harness/projects/playground_errors",
        }
    }
    pub fn plugins(self) -> Plugins {
        match self {
            Project::Examples | Project::Playground | Project::PlaygroundErrors => Plugins::Default,
            _ => Plugins::Starknet,
        }
    }
    pub fn name(self) -> &'static str {
        match self {
            Project::Examples => "examples",
            Project::BugSamples => "bug_samples",
            Project::StarknetTests => "cairo_level_tests",
            Project::Playground => "playground",
            Project::PlaygroundErrors => "playground_errors",
        }
    }
    pub fn files(self) -> Vec<PathBuf> {
        if matches!(self, Project::Playground | Project::PlaygroundErrors) {
            // Not part of the /repo corpus: read the directory itself.
            let mut v: Vec<PathBuf> = std::fs::read_dir(Path::new(self.path()).join("src"))
                .map(|d| d.filter_map(|e| e.ok().map(|e| e.path())).filter(|p| p.extension().is_some_and(|e| e == "cairo")).collect())
                .unwrap_or_default();
            v.sort();
            return v;
        }
        let mut v: Vec<PathBuf> = crate::corpus::all_files()
            .into_iter()
            .filter(|p| p.starts_with(self.path()) && p.extension().is_some_and(|e| e == "cairo"))
            .collect();
        v.sort();
        v
    }
}

pub fn open_project(cfg: &Config, project: Project) -> Result<(RootDatabase, Vec<CrateInput>), String> {
    let mut db = comp::build_db(cfg, project.plugins());
    let inputs = setup_project(&mut db, Path::new(project.path())).map_err(|e| format!("{e}"))?;
    Ok((db, inputs))
}

/// Everything a user sees of a compilation: diagnostics, and Sierra when there are no errors.
pub fn observe(db: &RootDatabase, inputs: &[CrateInput]) -> (String, Option<String>) {
    let (diag, has_errors) = comp::diagnostics(db, inputs);
    if has_errors {
        return (diag, None);
    }
    let sierra = match comp::sierra(db, inputs) {
        Ok(p) => p.to_string(),
        Err(e) => format!("COMPILE-ERROR: {e}"),
    };
    (diag, Some(sierra))
}

// ---------------------------------------------------------------------------------------------
// C13.

fn set_override(db: &mut RootDatabase, path: &Path, content: Option<String>) {
    let db_mut: &mut dyn Database = db;
    let file_id = FileLongId::OnDisk(path.to_path_buf()).intern(db_mut);
    override_file_content!(db_mut, file_id, content.map(|c| c.into()));
}

const EDIT_KINDS: &[&str] = &[
    "comment-top",
    "comment-middle",
    "comment-end",
    "blank-lines",
    "rename-one-occurrence",
    "rename-all-occurrences",
    "insert-statement",
    "insert-item",
    "delete-line",
    "duplicate-item",
    "swap-lines",
    "swap-similar-lines",
    "move-line",
    "duplicate-line",
    "move-item",
    "break-syntax",
    "restore-original",
    "unset-override",
    "delete-item",
];

fn identifiers(text: &str) -> Vec<String> {
    let mut out = BTreeSet::new();
    let mut cur = String::new();
    for c in text.chars().chain(std::iter::once(' ')) {
        if c.is_alphanumeric() || c == '_' {
            cur.push(c);
        } else {
            if cur.len() >= 3 && cur.chars().next().is_some_and(|c| c.is_alphabetic()) {
                out.insert(cur.clone());
            }
            cur.clear();
        }
    }
    out.into_iter()
        .filter(|w| !matches!(w.as_str(), "let" | "mut" | "ref" | "use" | "mod" | "impl" | "trait" | "struct" | "enum" | "match" | "loop" | "while" | "for" | "return" | "break" | "const" | "else" | "true" | "false" | "felt252" | "core" | "super" | "self" | "Self" | "crate" | "pub" | "extern" | "type" | "nopanic" | "implicits" | "continue"))
        .collect()
}

/// Applies one edit to `text`; returns the new text (None = unset the override).
fn apply_edit(kind: &str, text: &str, original: &str, rng: &mut Rng, nonce: u64) -> Option<String> {
    let lines: Vec<&str> = text.lines().collect();
    let n = lines.len().max(1);
    let join = |v: Vec<String>| v.join("\n") + "\n";
    let owned = |ls: &[&str]| ls.iter().map(|s| s.to_string()).collect::<Vec<_>>();
    Some(match kind {
        "comment-top" => format!("// edit {nonce}\n{text}"),
        "comment-middle" => {
            let mut v = owned(&lines);
            v.insert(rng.below(n), format!("// edit {nonce}"));
            join(v)
        }
        "comment-end" => format!("{text}\n// edit {nonce}\n"),
        "blank-lines" => {
            let mut v = owned(&lines);
            let at = rng.below(n);
            for _ in 0..1 + rng.below(3) {
                v.insert(at, String::new());
            }
            join(v)
        }
        "rename-one-occurrence" | "rename-all-occurrences" => {
            let ids = identifiers(text);
            if ids.is_empty() {
                return Some(text.to_string());
            }
            let id = rng.pick(&ids).clone();
            let new = format!("{id}_r{nonce}");
            if kind == "rename-all-occurrences" {
                // Whole-word replacement.
                let mut out = String::new();
                let mut cur = String::new();
                for c in text.chars().chain(std::iter::once('\u{0}')) {
                    if c.is_alphanumeric() || c == '_' {
                        cur.push(c);
                    } else {
                        out.push_str(if cur == id { &new } else { &cur });
                        cur.clear();
                        if c != '\u{0}' {
                            out.push(c);
                        }
                    }
                }
                out
            } else {
                text.replacen(&id, &new, 1)
            }
        }
        "insert-statement" => {
            let mut v = owned(&lines);
            let cands: Vec<usize> = lines.iter().enumerate().filter(|(_, l)| l.trim_end().ends_with('{') && l.contains("fn ")).map(|(i, _)| i).collect();
            if cands.is_empty() {
                return Some(text.to_string());
            }
            let at = *rng.pick(&cands);
            v.insert(at + 1, format!("    let _inserted_{nonce} = {nonce};"));
            join(v)
        }
        "insert-item" => {
            let mut v = owned(&lines);
            let at = if rng.bool() { 0 } else { n };
            v.insert(at.min(v.len()), format!("fn inserted_{nonce}(x: felt252) -> felt252 {{ x + {nonce} }}"));
            join(v)
        }
        "delete-line" => {
            let mut v = owned(&lines);
            if !v.is_empty() {
                v.remove(rng.below(n));
            }
            join(v)
        }
        "duplicate-item" | "delete-item" => {
            // An item = from a line starting with `fn ` (or `pub fn `) to the next line that is `}`.
            let starts: Vec<usize> = lines.iter().enumerate().filter(|(_, l)| l.starts_with("fn ") || l.starts_with("pub fn ")).map(|(i, _)| i).collect();
            if starts.is_empty() {
                return Some(text.to_string());
            }
            let s = *rng.pick(&starts);
            let Some(e) = (s..lines.len()).find(|i| lines[*i] == "}") else {
                return Some(text.to_string());
            };
            let mut v = owned(&lines);
            if kind == "delete-item" {
                v.drain(s..=e);
            } else {
                let mut copy: Vec<String> = lines[s..=e].iter().map(|l| l.to_string()).collect();
                copy[0] = copy[0].replacen("fn ", &format!("fn dup{nonce}_"), 1);
                for (k, l) in copy.into_iter().enumerate() {
                    v.insert(e + 1 + k, l);
                }
            }
            join(v)
        }
        "swap-similar-lines" => {
            // Two neighbouring lines of the same indentation that both end a list element or a
            // statement (struct members, enum variants, match arms, parameters, `let`s, `use`s):
            // a pure permutation of ordered things.
            let indent = |l: &str| l.len() - l.trim_start().len();
            let listy = |l: &str| {
                let t = l.trim_end();
                (t.ends_with(',') || t.ends_with(';')) && !t.trim_start().starts_with("//")
            };
            let cands: Vec<usize> = (0..lines.len().saturating_sub(1))
                .filter(|i| listy(lines[*i]) && listy(lines[*i + 1]) && indent(lines[*i]) == indent(lines[*i + 1]) && lines[*i].trim_end().ends_with(',') == lines[*i + 1].trim_end().ends_with(','))
                .collect();
            if cands.is_empty() {
                return Some(text.to_string());
            }
            let i = *rng.pick(&cands);
            let mut v = owned(&lines);
            v.swap(i, i + 1);
            join(v)
        }
        "move-line" => {
            let mut v = owned(&lines);
            if v.len() >= 3 {
                let from = rng.below(v.len());
                let l = v.remove(from);
                // Mostly nearby: the line stays inside its construct.
                let to = if rng.chance(3, 4) { (from + 1 + rng.below(3)).min(v.len()) } else { rng.below(v.len() + 1) };
                v.insert(to, l);
            }
            join(v)
        }
        "duplicate-line" => {
            let mut v = owned(&lines);
            if !v.is_empty() {
                let from = rng.below(v.len());
                let l = v[from].clone();
                let to = if rng.bool() { from + 1 } else { (from + 1 + rng.below(4)).min(v.len()) };
                v.insert(to, l);
            }
            join(v)
        }
        "move-item" => {
            let starts: Vec<usize> = lines.iter().enumerate().filter(|(_, l)| l.starts_with("fn ") || l.starts_with("pub fn ")).map(|(i, _)| i).collect();
            if starts.is_empty() {
                return Some(text.to_string());
            }
            let s0 = *rng.pick(&starts);
            let Some(e) = (s0..lines.len()).find(|i| lines[*i] == "}") else {
                return Some(text.to_string());
            };
            let mut v = owned(&lines);
            let item: Vec<String> = v.drain(s0..=e).collect();
            // To the top, the bottom, or in front of another item.
            let others: Vec<usize> = v.iter().enumerate().filter(|(_, l)| l.starts_with("fn ") || l.starts_with("pub fn ")).map(|(i, _)| i).collect();
            let at = match rng.below(3) {
                0 => 0,
                1 => v.len(),
                _ => if others.is_empty() { v.len() } else { *rng.pick(&others) },
            };
            for (k, l) in item.into_iter().enumerate() {
                v.insert(at + k, l);
            }
            join(v)
        }
        "swap-lines" => {
            let mut v = owned(&lines);
            if v.len() >= 2 {
                let i = rng.below(v.len() - 1);
                v.swap(i, i + 1);
            }
            join(v)
        }
        "break-syntax" => {
            let mut v = owned(&lines);
            let at = rng.below(n);
            let junk = *rng.pick(&["{", "}", "(", "fn", "let x = ;", "#[", "::<", "'"]);
            if at < v.len() {
                v[at] = format!("{} {junk}", v[at]);
            }
            join(v)
        }
        "restore-original" => original.to_string(),
        "unset-override" => return None,
        _ => text.to_string(),
    })
}

pub fn run_history(ctx: &mut Ctx, project: Project, cfg: &Config, hidx: u64, steps: usize) {
    let mut rng = Rng::derive(ctx.seed, &[13, hidx]);
    let files = project.files();
    if files.is_empty() {
        ctx.harness_error(format!("no files for project {}", project.name()));
        return;
    }
    let originals: BTreeMap<PathBuf, String> =
        files.iter().filter_map(|p| std::fs::read_to_string(p).ok().map(|s| (p.clone(), s))).collect();
    // The history touches 1-3 files.
    let mut touched: Vec<PathBuf> = vec![];
    for _ in 0..1 + rng.below(3) {
        let f = rng.pick(&files).clone();
        if !touched.contains(&f) && originals.contains_key(&f) {
            touched.push(f);
        }
    }
    if touched.is_empty() {
        return;
    }
    let (mut inc, inputs) = match open_project(cfg, project) {
        Ok(x) => x,
        Err(e) => {
            ctx.harness_error(format!("cannot open {}: {e}", project.name()));
            return;
        }
    };
    // Warm the incremental database.
    let _ = observe(&inc, &inputs);
    let mut current: BTreeMap<PathBuf, Option<String>> = BTreeMap::new();
    let mut log: Vec<serde_json::Value> = vec![];
    let mut pending_repairs: Vec<(usize, PathBuf, String)> = vec![];
    // Sensitivity of the observation: how often the compared output differs from the previous
    // compared output of the same history (an oracle that never sees a change decides nothing).
    let mut prev_obs: Option<u64> = None;
    for step in 0..steps {
        let nonce = hidx * 1000 + step as u64;
        // A syntax-breaking edit is repaired k steps later.
        let (file, kind, new) = if let Some(pos) = pending_repairs.iter().position(|(due, _, _)| *due <= step) {
            let (_, f, content) = pending_repairs.remove(pos);
            (f, "repair-syntax", Some(content))
        } else {
            let file = rng.pick(&touched).clone();
            let kind = *rng.pick(EDIT_KINDS);
            let orig = &originals[&file];
            let cur = current.get(&file).cloned().flatten().unwrap_or_else(|| orig.clone());
            if kind == "break-syntax" {
                pending_repairs.push((step + 1 + rng.below(4), file.clone(), cur.clone()));
            }
            let new = apply_edit(kind, &cur, orig, &mut rng, nonce);
            (file, kind, new)
        };
        current.insert(file.clone(), new.clone());
        log.push(json!({"step": step, "file": crate::corpus::rel(&file), "edit": kind}));
        ctx.count(&format!("edit.{kind}"), 1);
        let before = executed();
        let r = guarded(|| {
            set_override(&mut inc, &file, new.clone());
        });
        if let Err((loc, msg)) = r {
            ctx.violation(&format!("incremental-panic:{}", panic_sig(&loc, &msg)), &format!("setting an override panicked at {loc}: {msg}"), json!({"project": project.name(), "history": hidx, "seed": ctx.seed, "cfg": cfg, "log": log}));
            return;
        }
        // Queries in between: leave caches in different states before the next edit.
        let between = rng.below(4);
        ctx.eval();
        let compare = between == 3 || step + 1 == steps || rng.chance(1, 3);
        let inc_obs = match between {
            0 if !compare => None,
            1 if !compare => {
                let _ = guarded(|| comp::diagnostics(&inc, &inputs));
                None
            }
            _ => match guarded(|| observe(&inc, &inputs)) {
                Ok(o) => Some(o),
                Err((loc, msg)) => {
                    // The fresh database decides whether this is an incremental-only failure.
                    Some((format!("PANIC {}", panic_sig(&loc, &msg)), None))
                }
            },
        };
        let inc_executed = executed() - before;
        if !compare {
            continue;
        }
        let Some(inc_obs) = inc_obs else { continue };
        // Fresh compiler instance with the same contents.
        let before = executed();
        let fresh_obs = guarded(|| {
            let (mut fresh, finputs) = open_project(cfg, project).expect("open project");
            for (f, c) in &current {
                if let Some(c) = c {
                    set_override(&mut fresh, f, Some(c.clone()));
                }
            }
            observe(&fresh, &finputs)
        });
        let fresh_executed = executed() - before;
        let fresh_obs = match fresh_obs {
            Ok(o) => o,
            Err((loc, msg)) => (format!("PANIC {}", panic_sig(&loc, &msg)), None),
        };
        ctx.count("comparisons", 1);
        ctx.count("queries_executed.incremental", inc_executed);
        ctx.count("queries_executed.fresh", fresh_executed);
        if fresh_obs.1.is_some() {
            ctx.count("comparisons_with_sierra", 1);
        }
        if inc_obs != fresh_obs {
            let what = if inc_obs.0 != fresh_obs.0 { "diagnostics" } else { "sierra" };
            let (a, b) = if what == "diagnostics" { (inc_obs.0.clone(), fresh_obs.0.clone()) } else { (inc_obs.1.clone().unwrap_or_default(), fresh_obs.1.clone().unwrap_or_default()) };
            let at = a.bytes().zip(b.bytes()).take_while(|(x, y)| x == y).count();
            let show = |s: &str| s[at.saturating_sub(80).min(s.len())..(at + 160).min(s.len())].to_string();
            ctx.violation(
                &format!("incremental-differs:{what}:after-{kind}"),
                &format!("{} history {hidx} step {step} ({kind} on {}): incremental {what} differ from a fresh database at byte {at}: incremental {:?} vs fresh {:?}", project.name(), crate::corpus::rel(&file), show(&a), show(&b)),
                json!({"project": project.name(), "history": hidx, "seed": ctx.seed, "cfg": cfg, "steps": steps, "log": log}),
            );
            return;
        }
        let h = fnv(format!("{}|{:?}", fresh_obs.0, fresh_obs.1).as_bytes());
        if prev_obs.is_some_and(|p| p != h) {
            ctx.count("comparisons_where_output_changed_since_previous", 1);
        }
        prev_obs = Some(h);
        // Non-trivial: the incremental database did less work than the fresh one for this state.
        if inc_executed * 10 < fresh_executed * 9 {
            ctx.nontrivial(fnv_str(&format!("{}|{hidx}|{step}|{}", project.name(), fnv(inc_obs.0.as_bytes()))));
        } else {
            ctx.count("comparisons_without_reuse", 1);
        }
        if step == steps - 1 && hidx % 7 == 0 {
            ctx.sample(json!({"project": project.name(), "history": hidx, "edits": log.len(), "last_edit": kind,
                "queries_incremental": inc_executed, "queries_fresh": fresh_executed, "errors": fresh_obs.1.is_none()}));
        }
    }
}

pub fn c13_worker(ctx: &mut Ctx) {
    install_panic_hook();
    install_query_counter();
    let histories: u64 = ctx.tier.pick(160, 2400);
    let steps = ctx.tier.pick(14, 30);
    for h in 0..histories {
        if !ctx.mine(h) {
            continue;
        }
        let project = if ctx.tier == crate::report::Tier::Thorough && h % 5 == 4 {
            Project::BugSamples
        } else if h % 4 == 1 {
            Project::PlaygroundErrors
        } else if h % 2 == 1 {
            Project::Playground
        } else {
            Project::Examples
        };
        let cfg = if h % 4 == 3 { Config { opt: Some((Inl::Avoid, false)), ..Config::DEFAULT } } else { Config::DEFAULT };
        ctx.begin_case(h, &format!("history {h}"));
        run_history(ctx, project, &cfg, h, steps);
        ctx.maybe_flush();
    }
}

pub fn c13_replay(case: &serde_json::Value) -> Result<Option<String>, String> {
    install_panic_hook();
    install_query_counter();
    let project = match case["project"].as_str().unwrap_or("") {
        "examples" => Project::Examples,
        "bug_samples" => Project::BugSamples,
        "playground" => Project::Playground,
        "playground_errors" => Project::PlaygroundErrors,
        _ => return Err("unknown project".into()),
    };
    let cfg: Config = serde_json::from_value(case["cfg"].clone()).map_err(|e| e.to_string())?;
    let h = case["history"].as_u64().ok_or("no history")?;
    let steps = case["steps"].as_u64().unwrap_or(14) as usize;
    let seed = case["seed"].as_u64().unwrap_or(1);
    let mut ctx = Ctx::new("C13", crate::report::Tier::Quick, seed, 0, 1, 0, PathBuf::from("/verif/work/replay_c13.json"));
    run_history(&mut ctx, project, &cfg, h, steps);
    Ok(ctx.res.violations.first().map(|v| format!("{}: {}", v.sig, v.desc)))
}

// ---------------------------------------------------------------------------------------------
// C12.

#[derive(Debug, Clone, PartialEq, Eq)]
pub struct Outputs {
    pub diagnostics: String,
    pub sierra_names: String,
    pub sierra_canonical: String,
    pub casm: String,
    pub classes: String,
    /// Hash of the raw interned ids: distinguishes schedules, not compared.
    pub fingerprint: u64,
}

fn raw_id_fingerprint(p: &Program) -> u64 {
    let mut s = String::new();
    for f in &p.funcs {
        s.push_str(&format!("{},", f.id.id));
    }
    for l in p.libfunc_declarations.iter().take(100) {
        s.push_str(&format!("{},", l.id.id));
    }
    for t in p.type_declarations.iter().take(100) {
        s.push_str(&format!("{},", t.id.id));
    }
    fnv_str(&s)
}

/// One full compilation of a project on a given schedule.
pub fn compile_on_schedule(project: Project, cfg: &Config, threads: usize, yield_seed: u64, prefix_seed: u64, order: bool) -> Result<Outputs, String> {
    let pool = rayon::ThreadPoolBuilder::new().num_threads(threads).stack_size(128 << 20).build().map_err(|e| e.to_string())?;
    verif::set_yield_seed(yield_seed);
    let r = pool.install(|| -> Result<Outputs, String> {
        let (db, inputs) = open_project(cfg, project)?;
        let ids = CrateInput::into_crate_ids(&db, inputs.clone());
        let mut rng = Rng::new(prefix_seed);
        // A prefix of unrelated queries, some on clones on other threads.
        if prefix_seed != 0 {
            let n = 1 + rng.below(4);
            for _ in 0..n {
                match rng.below(8) {
                    4..=7 => {
                        // The Sierra of single functions of the project, in a seeded order (later
                        // ones first as often as not): interning happens in another order.
                        verif::count("c12.prefix.function_level", 1);
                        // Single functions can only be asked for in an error-free project (the
                        // compiler's own entry points check the diagnostics first).
                        if comp::diagnostics(&db, &inputs).1 {
                            continue;
                        }
                        if let Ok(mut fns) = cairo_lang_sierra_generator::program_generator::find_all_free_function_ids(&db, ids.clone()) {
                            verif::count("c12.prefix.functions_listed", fns.len() as u64);
                            for i in (1..fns.len()).rev() {
                                fns.swap(i, rng.below(i + 1));
                            }
                            for f in fns.into_iter().take(1 + rng.below(10)) {
                                match cairo_lang_compiler::get_sierra_program_for_functions(&db, vec![f]) {
                                    Ok(_) => verif::count("c12.prefix.single_function_sierra_ok", 1),
                                    Err(_) => verif::count("c12.prefix.single_function_sierra_err", 1),
                                }
                            }
                        }
                    }
                    0 => {
                        let _ = comp::diagnostics(&db, &inputs);
                    }
                    1 => {
                        let snap = db.snapshot();
                        let snap2 = db.snapshot();
                        let inp = inputs.clone();
                        let inp2 = inputs.clone();
                        rayon::join(
                            move || {
                                let _ = comp::diagnostics(&snap, &inp);
                            },
                            move || {
                                let _ = comp::sierra(&snap2, &inp2);
                            },
                        );
                    }
                    2 => {
                        // Another crate first: parts of the corelib through a tiny virtual crate.
                        let c = comp::virtual_crate("other", "fn o(a: u128, b: u128) -> u128 { a / b + a % b }", &comp::default_settings(), None);
                        let _ = comp::sierra(&db, &[c]);
                    }
                    _ => {
                        let _ = comp::sierra(&db, &inputs);
                    }
                }
            }
        }
        // A project with error diagnostics has no Sierra: its diagnostics (computed on this
        // schedule) are the whole output.
        let (d0, has_errors) = comp::diagnostics(&db, &inputs);
        if has_errors {
            return Ok(Outputs {
                diagnostics: d0,
                sierra_names: String::new(),
                sierra_canonical: String::new(),
                casm: String::new(),
                classes: String::new(),
                fingerprint: fnv(format!("{threads}|{yield_seed}|{prefix_seed}|{order}").as_bytes()),
            });
        }
        let (diagnostics, raw, named) = if order {
            let (d, _) = comp::diagnostics(&db, &inputs);
            let raw = compile_raw(&db, &inputs, &ids)?;
            let named = comp::sierra(&db, &inputs)?;
            (d, raw, named)
        } else {
            let raw = compile_raw(&db, &inputs, &ids)?;
            let named = comp::sierra(&db, &inputs)?;
            let (d, _) = comp::diagnostics(&db, &inputs);
            (d, raw, named)
        };
        let canonical = CanonicalReplacer::from_program(&named).apply(&named);
        let casm = crate::serde_checks::casm_text(&named).unwrap_or_else(|| "NOT-COMPILABLE".into());
        let classes = if project.plugins() == Plugins::Starknet {
            match crate::classes::compile_crates_contracts(&db, inputs.clone()) {
                Ok(cs) => cs.iter().map(|(n, c)| format!("{n}:{}", serde_json::to_string(c).unwrap_or_default())).collect::<Vec<_>>().join("\n"),
                Err(e) => format!("CLASS-ERROR {e}"),
            }
        } else {
            String::new()
        };
        Ok(Outputs {
            diagnostics,
            sierra_names: named.to_string(),
            sierra_canonical: canonical.to_string(),
            casm,
            classes,
            fingerprint: raw_id_fingerprint(&raw),
        })
    });
    verif::set_yield_seed(0);
    r
}

fn compile_raw(db: &RootDatabase, inputs: &[CrateInput], ids: &[cairo_lang_filesystem::ids::CrateId<'_>]) -> Result<Program, String> {
    let mut diag = String::new();
    // The artifact entry point goes through the parallel warm-up when the pool has > 1 thread.
    compile_prepared_db_program_artifact(
        db,
        ids.to_vec(),
        CompilerConfig {
            diagnostics_reporter: DiagnosticsReporter::write_to_string(&mut diag).with_crates(inputs).allow_warnings(),
            replace_ids: false,
            ..Default::default()
        },
    )
    .map(|a| a.program)
    .map_err(|e| format!("{e}\n{diag}"))
}

pub fn c12_worker(ctx: &mut Ctx) {
    install_panic_hook();
    let projects: Vec<Project> = ctx.tier.pick(
        vec![Project::Examples, Project::Playground, Project::StarknetTests],
        vec![Project::Examples, Project::Playground, Project::StarknetTests, Project::BugSamples],
    );
    let runs_per_project: u64 = ctx.tier.pick(14, 60);
    let cfgs = [Config::DEFAULT, Config { opt: Some((Inl::Avoid, false)), ..Config::DEFAULT }];
    let mut case = 0u64;
    for project in projects {
        for (ci, cfg) in cfgs.iter().enumerate() {
            if ci == 1 && ctx.tier == crate::report::Tier::Quick && project != Project::Examples {
                continue;
            }
            // Reference: single thread, no delays, no prefix.
            let reference = match guarded(|| compile_on_schedule(project, cfg, 1, 0, 0, true)) {
                Ok(Ok(o)) => o,
                Ok(Err(e)) => {
                    ctx.harness_error(format!("{} does not compile: {}", project.name(), e.chars().take(300).collect::<String>()));
                    continue;
                }
                Err((loc, msg)) => {
                    ctx.harness_error(format!("reference compile of {} panicked at {loc}: {msg}", project.name()));
                    continue;
                }
            };
            let mut fingerprints: BTreeSet<u64> = BTreeSet::new();
            fingerprints.insert(reference.fingerprint);
            for r in 0..runs_per_project {
                case += 1;
                let mut rng = Rng::derive(ctx.seed, &[12, case]);
                let threads = *rng.pick(&[1usize, 2, 4, 16, 16]);
                let yield_seed = if rng.chance(3, 4) { rng.next_u64() | 1 } else { 0 };
                let prefix_seed = if rng.chance(2, 3) { rng.next_u64() | 1 } else { 0 };
                let order = rng.bool();
                ctx.eval();
                ctx.count(&format!("threads.{threads}"), 1);
                let desc = json!({"project": project.name(), "cfg": cfg, "threads": threads, "yield_seed": yield_seed, "prefix_seed": prefix_seed, "diagnostics_first": order});
                match guarded(|| compile_on_schedule(project, cfg, threads, yield_seed, prefix_seed, order)) {
                    Ok(Ok(o)) => {
                        fingerprints.insert(o.fingerprint);
                        for (what, a, b) in [
                            ("diagnostics", &o.diagnostics, &reference.diagnostics),
                            ("sierra-debug-names", &o.sierra_names, &reference.sierra_names),
                            ("sierra-canonical", &o.sierra_canonical, &reference.sierra_canonical),
                            ("casm", &o.casm, &reference.casm),
                            ("contract-classes", &o.classes, &reference.classes),
                        ] {
                            if a != b {
                                let at = a.bytes().zip(b.bytes()).take_while(|(x, y)| x == y).count();
                                ctx.violation(
                                    &format!("nondeterministic:{what}"),
                                    &format!("{} {what} differ from the single-threaded reference at byte {at} on schedule {desc}: {:?} vs {:?}", project.name(),
                                        &a[at.saturating_sub(60).min(a.len())..(at + 100).min(a.len())], &b[at.saturating_sub(60).min(b.len())..(at + 100).min(b.len())]),
                                    desc.clone(),
                                );
                                break;
                            }
                        }
                        ctx.nontrivial(fnv_str(&format!("{}|{}|{threads}|{yield_seed}|{prefix_seed}|{order}", project.name(), cfg.name())));
                        if r == 0 {
                            ctx.sample(json!({"schedule": desc, "sierra_bytes": o.sierra_names.len(), "casm_bytes": o.casm.len(), "classes_bytes": o.classes.len(), "raw_id_fingerprint": o.fingerprint}));
                        }
                    }
                    Ok(Err(e)) => ctx.violation("nondeterministic:result", &format!("{} compiled on the reference schedule but failed on {desc}: {}", project.name(), e.chars().take(300).collect::<String>()), desc),
                    Err((loc, msg)) => ctx.violation(&format!("schedule-panic:{}", panic_sig(&loc, &msg)), &format!("{} panicked at {loc}: {msg} on schedule {desc}", project.name()), desc),
                }
                ctx.maybe_flush();
            }
            for (k, v) in verif::counters() {
                if k.starts_with("c12.prefix.") {
                    ctx.count(&format!("{k}"), v);
                }
            }
            verif::reset_counters();
            ctx.count("distinct_raw_id_fingerprints", fingerprints.len() as u64);
            ctx.set_add("fingerprints_per_project", &format!("{}[{}]={}", project.name(), cfg.name(), fingerprints.len()));
            if fingerprints.len() < 2 {
                ctx.inconclusive(&format!("{}: all schedules produced the same raw intern ids (no distinguishable interleavings)", project.name()));
            }
        }
    }
}

pub fn c12_replay(case: &serde_json::Value) -> Result<Option<String>, String> {
    install_panic_hook();
    let project = match case["project"].as_str().unwrap_or("") {
        "examples" => Project::Examples,
        "bug_samples" => Project::BugSamples,
        "cairo_level_tests" => Project::StarknetTests,
        "playground" => Project::Playground,
        _ => return Err("unknown project".into()),
    };
    let cfg: Config = serde_json::from_value(case["cfg"].clone()).map_err(|e| e.to_string())?;
    let reference = compile_on_schedule(project, &cfg, 1, 0, 0, true)?;
    // Schedules are not replayable exactly: repeat the recorded one a few times.
    for _ in 0..5 {
        let o = compile_on_schedule(
            project,
            &cfg,
            case["threads"].as_u64().unwrap_or(16) as usize,
            case["yield_seed"].as_u64().unwrap_or(1),
            case["prefix_seed"].as_u64().unwrap_or(1),
            case["diagnostics_first"].as_bool().unwrap_or(true),
        )?;
        if (o.diagnostics.clone(), o.sierra_names.clone(), o.casm.clone(), o.classes.clone())
            != (reference.diagnostics.clone(), reference.sierra_names.clone(), reference.casm.clone(), reference.classes.clone())
        {
            return Ok(Some("outputs differ from the single-threaded reference".into()));
        }
    }
    Ok(None)
}

// ---------------------------------------------------------------------------------------------
// C20.

fn with_core_cache(db: &mut RootDatabase, cache: Vec<u8>) {
    let core_input = CrateInput::Real { name: "core".into(), discriminator: None };
    let mut crate_configs = files_group_input(db).crate_configs(db).clone().unwrap();
    crate_configs.get_mut(&core_input).expect("core crate configured").cache_file = Some(BlobLongId::Virtual(cache));
    set_crate_configs_input(db, Some(crate_configs));
}

fn hook_counts() -> (u64, u64) {
    let c = verif::counters();
    (
        c.get("lowering.multi_lowering.from_cache").copied().unwrap_or(0),
        c.get("lowering.multi_lowering.from_source").copied().unwrap_or(0),
    )
}

/// C20 on library crates other than the corelib: every `(lib, main)` pair of the project at `dir`
/// is compiled with the lib analysed from source, the lib's cache is generated from that very
/// database, and the dependent is compiled again on a fresh database that gets the lib as a blob.
fn compare_lib_caches(ctx: &mut Ctx, cfg: &Config, dir: &Path, pairs: &[(String, String)], label: &str) {
    type Obs = (String, Option<String>, String);
    let observe_main = |db: &RootDatabase, input: &CrateInput| -> Obs {
        let inputs = vec![input.clone()];
        let (d, s) = observe(db, &inputs);
        let casm = match &s {
            Some(_) => comp::sierra(db, &inputs).ok().and_then(|p| crate::serde_checks::casm_text(&p)).unwrap_or_default(),
            None => String::new(),
        };
        (d, s, casm)
    };
    let named = |inputs: &[CrateInput], wanted: &str| -> Option<CrateInput> {
        inputs.iter().find(|i| matches!(i, CrateInput::Real { name, .. } if name == wanted)).cloned()
    };
    // From source; and the caches.
    let from_source = guarded(|| {
        let mut db = comp::build_db(cfg, Plugins::Default);
        let inputs = setup_project(&mut db, dir).map_err(|e| format!("{e}"))?;
        let mut out: Vec<Option<(Obs, Vec<u8>)>> = vec![];
        for (lib, main) in pairs {
            let (Some(lib_in), Some(main_in)) = (named(&inputs, lib), named(&inputs, main)) else {
                out.push(None);
                continue;
            };
            // The library itself must be free of errors to be cached.
            let (_, lib_errors) = comp::diagnostics(&db, std::slice::from_ref(&lib_in));
            if lib_errors {
                out.push(None);
                continue;
            }
            let obs = observe_main(&db, &main_in);
            let lib_id = CrateInput::into_crate_ids(&db, vec![lib_in])[0];
            match generate_crate_cache(&db, lib_id) {
                Ok(blob) => out.push(Some((obs, blob))),
                Err(_) => out.push(None),
            }
        }
        Ok::<_, String>(out)
    });
    let from_source = match from_source {
        Ok(Ok(v)) => v,
        Ok(Err(e)) => {
            ctx.harness_error(format!("{label}: project does not open: {e}"));
            return;
        }
        Err((loc, msg)) => {
            ctx.inconclusive(&format!("from-source build of a library project panicked: {}", panic_sig(&loc, &msg)));
            return;
        }
    };
    // From the caches, on a fresh database.
    verif::reset_counters();
    let from_cache = guarded(|| {
        let mut db = comp::build_db(cfg, Plugins::Default);
        let inputs = setup_project(&mut db, dir).map_err(|e| format!("{e}"))?;
        let mut crate_configs = files_group_input(&db).crate_configs(&db).clone().unwrap();
        for ((lib, _), src) in pairs.iter().zip(&from_source) {
            if let (Some((_, blob)), Some(lib_in)) = (src, named(&inputs, lib)) {
                crate_configs.get_mut(&lib_in).expect("lib configured").cache_file = Some(BlobLongId::Virtual(blob.clone()));
            }
        }
        set_crate_configs_input(&mut db, Some(crate_configs));
        let mut out: Vec<Option<(Obs, u64)>> = vec![];
        for ((_, main), src) in pairs.iter().zip(&from_source) {
            let (Some(_), Some(main_in)) = (src, named(&inputs, main)) else {
                out.push(None);
                continue;
            };
            let before = hook_counts().0;
            let obs = observe_main(&db, &main_in);
            out.push(Some((obs, hook_counts().0 - before)));
        }
        Ok::<_, String>(out)
    });
    let from_cache = match from_cache {
        Ok(Ok(v)) => v,
        Ok(Err(e)) => {
            ctx.harness_error(format!("{label}: project does not open with caches: {e}"));
            return;
        }
        Err((loc, msg)) => {
            ctx.violation(
                &format!("cache-panic:{}", panic_sig(&loc, &msg)),
                &format!("{label}: compiling against library caches panicked at {loc}: {msg} (the from-source build did not)"),
                json!({"library_project": dir.display().to_string(), "cfg": cfg, "label": label}),
            );
            return;
        }
    };
    for (((lib, main), src), cached) in pairs.iter().zip(from_source).zip(from_cache) {
        ctx.eval();
        let (Some((oa, blob)), Some((ob, hits))) = (src, cached) else {
            ctx.count("library_pairs_skipped(lib has errors)", 1);
            continue;
        };
        ctx.count("library_cache_bytes", blob.len() as u64);
        if oa != ob {
            let what = if oa.0 != ob.0 { "diagnostics" } else if oa.1 != ob.1 { "sierra" } else { "casm" };
            let (x, y) = match what { "diagnostics" => (oa.0.clone(), ob.0.clone()), "sierra" => (oa.1.clone().unwrap_or_default(), ob.1.clone().unwrap_or_default()), _ => (oa.2.clone(), ob.2.clone()) };
            let at = x.bytes().zip(y.bytes()).take_while(|(p, q)| p == q).count();
            let lib_src = std::fs::read_to_string(dir.join(lib).join("lib.cairo")).unwrap_or_default();
            let main_src = std::fs::read_to_string(dir.join(main).join("lib.cairo")).unwrap_or_default();
            ctx.violation(
                &format!("library-cache-differs:{what}"),
                &format!("{label} {main} [{}]: {what} with `{lib}` from its cache differ from the from-source build at byte {at}: source {:?} vs cache {:?}", cfg.name(),
                    &x[at.saturating_sub(60).min(x.len())..(at + 120).min(x.len())], &y[at.saturating_sub(60).min(y.len())..(at + 120).min(y.len())]),
                json!({"library_pair": {"lib": lib, "main": main, "lib_source": lib_src, "main_source": main_src}, "cfg": cfg}),
            );
            continue;
        }
        ctx.count("library_lowerings_served_from_cache", hits);
        if hits > 0 && oa.1.is_some() {
            ctx.nontrivial(fnv_str(&format!("{label}|{main}|{}", cfg.name())));
            ctx.count("library_pairs_equal", 1);
        } else if oa.1.is_none() {
            ctx.count("library_dependents_with_errors", 1);
        } else {
            ctx.inconclusive("no lowering of the library was served from its cache");
        }
    }
}

const LIB_PROJECT_TOML_HEAD: &str = "[config.global]\nedition = \"2025_12\"\n\n";

/// Writes a project of generated (library, dependent) pairs under `dir`; returns the pairs.
fn write_generated_library_project(dir: &Path, seed: u64, first: u64, n: u64) -> Vec<(String, String)> {
    let _ = std::fs::remove_dir_all(dir);
    let mut roots = String::from("[crate_roots]\n");
    let mut deps = String::from("[config.global.dependencies]\n");
    let mut pairs = vec![];
    for i in first..first + n {
        let mut rng = Rng::derive(seed, &[1, i]);
        let Ok((program, _)) = guarded(|| crate::pgen::generate(&mut rng)) else { continue };
        let src = crate::pgen::render_program(&program);
        // Everything public; the dependent calls `main` with its own parameters.
        let lib_src = format!("\n{src}").replace("\nfn ", "\npub fn ").replace("\nstruct ", "\npub struct ").replace("\nenum ", "\npub enum ");
        let Some(start) = lib_src.find("pub fn main(") else { continue };
        let rest = &lib_src[start + "pub fn main(".len()..];
        let Some(end) = rest.find(") -> ") else { continue };
        let params = &rest[..end];
        let names: Vec<&str> = params.split(", ").filter(|p| !p.is_empty()).map(|p| p.split(':').next().unwrap_or("").trim()).collect();
        let (lib, main) = (format!("genlib{i}"), format!("genmain{i}"));
        let main_src = format!("fn entry({params}) {{\n    let _r = {lib}::main({});\n}}\n", names.join(", "));
        for (name, text) in [(&lib, &lib_src), (&main, &main_src)] {
            let d = dir.join(name);
            if std::fs::create_dir_all(&d).is_err() || std::fs::write(d.join("lib.cairo"), text).is_err() {
                continue;
            }
            roots.push_str(&format!("{name} = \"{name}\"\n"));
        }
        deps.push_str(&format!("{lib} = {{ discriminator = \"{lib}\" }}\n"));
        pairs.push((lib, main));
    }
    let _ = std::fs::write(dir.join("cairo_project.toml"), format!("{roots}\n{LIB_PROJECT_TOML_HEAD}{deps}"));
    pairs
}

pub fn c20_worker(ctx: &mut Ctx) {
    install_panic_hook();
    let cfgs: Vec<Config> = ctx.tier.pick(
        vec![Config::DEFAULT, Config { opt: Some((Inl::Avoid, false)), ..Config::DEFAULT }],
        vec![Config::DEFAULT, Config { opt: Some((Inl::Avoid, false)), ..Config::DEFAULT }, Config { opt: Some((Inl::Small(5000), false)), ..Config::DEFAULT }, Config::DISABLED],
    );
    let snippets = crate::execchecks::snippet_cases();
    let per_cfg = ctx.tier.pick(30usize, 400usize);
    for (ci, cfg) in cfgs.iter().enumerate() {
        // Generate the corelib cache with the same settings.
        let cache = match guarded(|| {
            let db = comp::build_db(cfg, Plugins::Default);
            let core = db.core_crate();
            generate_crate_cache(&db, core).map_err(|e| format!("{e:?}"))
        }) {
            Ok(Ok(c)) => c,
            Ok(Err(e)) => {
                ctx.harness_error(format!("corelib cache generation failed: {e}"));
                continue;
            }
            Err((loc, msg)) => {
                ctx.harness_error(format!("corelib cache generation panicked at {loc}: {msg}"));
                continue;
            }
        };
        ctx.count("cache_bytes", cache.len() as u64);
        // Dependents: the examples project, then snippets (each on a pair of fresh databases that
        // is reused for a batch).
        let mut dependents: Vec<(String, Option<Project>, String)> = vec![("examples".into(), Some(Project::Examples), String::new())];
        let mut rng = Rng::derive(ctx.seed, &[20, ci as u64]);
        let mut idxs: Vec<usize> = (0..snippets.len()).collect();
        rng.shuffle(&mut idxs);
        // Single files that lean on corelib functions (not just extern libfuncs).
        for (p, text) in crate::corpus::cairo_files() {
            let r = crate::corpus::rel(&p);
            if (r.starts_with("examples/") || r.starts_with("tests/bug_samples/")) && !r.ends_with("lib.cairo") && !text.contains("starknet") {
                dependents.push((r, None, text));
            }
        }
        for i in idxs.into_iter().take(per_cfg) {
            dependents.push((snippets[i].0.clone(), None, snippets[i].1.clone()));
        }
        let mut src_db = comp::build_db(cfg, Plugins::Default);
        let mut cache_db = comp::build_db(cfg, Plugins::Default);
        with_core_cache(&mut cache_db, cache.clone());
        let mut used = 0;
        for (di, (name, project, code)) in dependents.into_iter().enumerate() {
            if !ctx.mine((ci * 100_000 + di) as u64) {
                continue;
            }
            ctx.eval();
            // A fresh pair of databases per dependent: a lowering already memoized for an earlier
            // dependent would not be observed as served from the cache again.
            if used > 0 {
                src_db = comp::build_db(cfg, Plugins::Default);
                cache_db = comp::build_db(cfg, Plugins::Default);
                with_core_cache(&mut cache_db, cache.clone());
                used = 0;
            }
            used += 1;
            let replay = json!({"dependent": name, "cfg": cfg, "code": code});
            let run = |db: &mut RootDatabase, cached: bool| -> Result<((String, Option<String>, String), (u64, u64)), (String, String)> {
                verif::reset_counters();
                let r = guarded(|| {
                    let inputs = match project {
                        Some(p) => setup_project(db, Path::new(p.path())).expect("setup project"),
                        None => vec![comp::virtual_crate(&format!("dep{}", fnv_str(&name)), &code, &comp::default_settings(), None)],
                    };
                    let (d, s) = observe(db, &inputs);
                    let casm = match &s {
                        Some(_) => comp::sierra(db, &inputs).ok().and_then(|p| crate::serde_checks::casm_text(&p)).unwrap_or_default(),
                        None => String::new(),
                    };
                    (d, s, casm)
                });
                let counts = hook_counts();
                let _ = cached;
                r.map(|o| (o, counts))
            };
            let a = run(&mut src_db, false);
            let b = run(&mut cache_db, true);
            match (a, b) {
                (Ok((oa, (src_cache_hits, _))), Ok((ob, (cache_hits, _)))) => {
                    if src_cache_hits != 0 {
                        ctx.harness_error("the from-source database served lowerings from a cache".into());
                    }
                    if oa != ob {
                        let what = if oa.0 != ob.0 { "diagnostics" } else if oa.1 != ob.1 { "sierra" } else { "casm" };
                        let (x, y) = match what { "diagnostics" => (oa.0.clone(), ob.0.clone()), "sierra" => (oa.1.clone().unwrap_or_default(), ob.1.clone().unwrap_or_default()), _ => (oa.2.clone(), ob.2.clone()) };
                        let at = x.bytes().zip(y.bytes()).take_while(|(p, q)| p == q).count();
                        ctx.violation(
                            &format!("cache-differs:{what}"),
                            &format!("{name} [{}]: {what} with the corelib from its cache differ from the from-source build at byte {at}: source {:?} vs cache {:?}", cfg.name(),
                                &x[at.saturating_sub(60).min(x.len())..(at + 120).min(x.len())], &y[at.saturating_sub(60).min(y.len())..(at + 120).min(y.len())]),
                            replay,
                        );
                        continue;
                    }
                    ctx.count("lowerings_served_from_cache", cache_hits);
                    if cache_hits > 0 && oa.1.is_some() {
                        // Non-trivial: compiled to Sierra and really used cached lowerings.
                        ctx.nontrivial(fnv_str(&format!("{name}|{}", cfg.name())));
                    } else if oa.1.is_none() {
                        ctx.count("dependents_with_errors", 1);
                    } else {
                        ctx.inconclusive("no lowering was served from the cache for this dependent");
                    }
                    if used % 17 == 1 {
                        ctx.sample(json!({"dependent": name, "cfg": cfg.name(), "cache_served_lowerings": cache_hits, "sierra_bytes": oa.1.as_ref().map(|s| s.len())}));
                    }
                }
                (Err((loc, msg)), Ok(_)) | (Err((loc, msg)), Err(_)) => {
                    ctx.inconclusive(&format!("from-source build panicked: {}", panic_sig(&loc, &msg)));
                    used = 1000;
                }
                (Ok(_), Err((loc, msg))) => {
                    ctx.violation(&format!("cache-panic:{}", panic_sig(&loc, &msg)), &format!("{name} [{}]: compiling against the cached corelib panicked at {loc}: {msg}", cfg.name()), replay);
                    used = 1000;
                }
            }
            ctx.maybe_flush();
        }
        // ---- Library crates other than the corelib, supplied as caches.
        if ctx.mine((ci * 100_000 + 99_999) as u64) {
            compare_lib_caches(ctx, cfg, Path::new("/verif/harness/projects/cachelib"), &[("featlib".to_string(), "featmain".to_string())], "feature-library");
        }
        let batch: u64 = ctx.tier.pick(6, 40);
        let dir = PathBuf::from(format!("/verif/work/c20_libs/s{}_c{ci}", ctx.shard));
        let first = (ctx.shard as u64) * 1000 + (ci as u64) * 100_000;
        let pairs = write_generated_library_project(&dir, ctx.seed, first, batch);
        ctx.count("generated_library_pairs", pairs.len() as u64);
        compare_lib_caches(ctx, cfg, &dir, &pairs, "generated-library");
        let _ = std::fs::remove_dir_all(&dir);
        ctx.maybe_flush();
    }
}

pub fn c20_replay(case: &serde_json::Value) -> Result<Option<String>, String> {
    install_panic_hook();
    let cfg: Config = serde_json::from_value(case["cfg"].clone()).map_err(|e| e.to_string())?;
    if let Some(pair) = case.get("library_pair") {
        // Re-create the two crates of the recorded pair and compare again.
        let (lib, main) = (pair["lib"].as_str().ok_or("no lib")?, pair["main"].as_str().ok_or("no main")?);
        let dir = PathBuf::from(format!("/verif/work/c20_libs/replay_{}", std::process::id()));
        let _ = std::fs::remove_dir_all(&dir);
        for (name, key) in [(lib, "lib_source"), (main, "main_source")] {
            std::fs::create_dir_all(dir.join(name)).map_err(|e| e.to_string())?;
            std::fs::write(dir.join(name).join("lib.cairo"), pair[key].as_str().unwrap_or("")).map_err(|e| e.to_string())?;
        }
        std::fs::write(
            dir.join("cairo_project.toml"),
            format!("[crate_roots]\n{lib} = \"{lib}\"\n{main} = \"{main}\"\n\n{LIB_PROJECT_TOML_HEAD}[config.global.dependencies]\n{lib} = {{ discriminator = \"{lib}\" }}\n"),
        )
        .map_err(|e| e.to_string())?;
        let mut ctx = Ctx::new("C20", crate::report::Tier::Quick, 1, 0, 1, 0, PathBuf::from("/verif/work/replay_c20.json"));
        compare_lib_caches(&mut ctx, &cfg, &dir, &[(lib.to_string(), main.to_string())], "replay");
        let _ = std::fs::remove_dir_all(&dir);
        return Ok(ctx.res.violations.first().map(|v| format!("{}: {}", v.sig, v.desc)));
    }
    if case.get("library_project").is_some() {
        return Err("a panic of a whole library project is not replayable individually; rerun the check".into());
    }
    let name = case["dependent"].as_str().ok_or("no dependent")?;
    let code = case["code"].as_str().unwrap_or("");
    let cache = {
        let db = comp::build_db(&cfg, Plugins::Default);
        generate_crate_cache(&db, db.core_crate()).map_err(|e| format!("{e:?}"))?
    };
    let mut src_db = comp::build_db(&cfg, Plugins::Default);
    let mut cache_db = comp::build_db(&cfg, Plugins::Default);
    with_core_cache(&mut cache_db, cache);
    let mut obs = vec![];
    for db in [&mut src_db, &mut cache_db] {
        let inputs = if name == "examples" {
            setup_project(db, Path::new(Project::Examples.path())).map_err(|e| e.to_string())?
        } else {
            vec![comp::virtual_crate("dep", code, &comp::default_settings(), None)]
        };
        obs.push(observe(db, &inputs));
    }
    Ok((obs[0] != obs[1]).then(|| "outputs with the cached corelib differ from the from-source build".to_string()))
}
