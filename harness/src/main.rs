#![allow(dead_code, unused_mut)]
//! cairo-verif: runtime monitors for the properties in /verif/properties.jsonl.
//!
//! `cairo-verif check <ID> [--tier quick|thorough] [--replay FILE]` is the driver: it forks worker
//! processes (one per shard), supervises them, merges what they observed, writes the evidence and
//! prints the verdict lines. `cairo-verif worker ...` is the worker entry point.

mod casm_ref;
mod checks;
mod classes;
mod comp;
mod constcheck;
mod corpus;
mod dbscen;
mod exec;
mod fmtchecks;
mod metamorph;
mod opmatrix;
mod ownership;
mod execchecks;
mod values;
mod w2;
mod frontend;
mod pgen;
mod gencheck;
mod hintfault;
mod report;
mod rng;
mod serde_checks;
mod sierra_mut;

use std::fs;
use std::path::{Path, PathBuf};
use std::process::{Child, Command, Stdio};
use std::time::{Duration, Instant};

use report::{Ctx, ShardResult, Tier, VERIF_DIR, Violation};
use serde_json::{Value, json};

fn arg_value(args: &[String], name: &str) -> Option<String> {
    args.iter().position(|a| a == name).and_then(|i| args.get(i + 1).cloned())
}

fn main() {
    let args: Vec<String> = std::env::args().collect();
    if args.len() < 3 {
        eprintln!("usage: cairo-verif check <ID> [--tier quick|thorough] [--replay FILE]");
        std::process::exit(2);
    }
    let cmd = args[1].as_str();
    let id = args[2].clone();
    let tier = std::env::var("VERIF_TIER")
        .ok()
        .filter(|s| !s.is_empty())
        .or_else(|| arg_value(&args, "--tier"))
        .and_then(|s| Tier::parse(&s))
        .unwrap_or(Tier::Quick);
    let seed: u64 = arg_value(&args, "--seed")
        .or_else(|| std::env::var("VERIF_SEED").ok())
        .and_then(|s| s.trim().parse().ok())
        .unwrap_or(1);
    match cmd {
        "check" => {
            if let Some(path) = arg_value(&args, "--replay") {
                std::process::exit(replay_file(&id, &path));
            }
            std::process::exit(drive(&id, tier, seed));
        }
        "worker" => {
            let shard: usize = arg_value(&args, "--shard").unwrap().parse().unwrap();
            let nshards: usize = arg_value(&args, "--nshards").unwrap().parse().unwrap();
            let start: u64 = arg_value(&args, "--start").map(|s| s.parse().unwrap()).unwrap_or(0);
            let out = PathBuf::from(arg_value(&args, "--out").unwrap());
            let _ = rayon::ThreadPoolBuilder::new().stack_size(128 << 20).build_global();
            let mut ctx = Ctx::new(&id, tier, seed, shard, nshards, start, out);
            run_worker_on_big_stack(&id, &mut ctx);
            ctx.finish();
        }
        "minimize-c10" => {
            let v: Value = serde_json::from_str(&fs::read_to_string(&args[2]).unwrap()).unwrap();
            let text = v["case"]["text"].as_str().unwrap().to_string();
            let (sig, min) = frontend::minimize_c10(&text);
            println!("{sig}\t{min:?}");
        }
        "minimize-c09" => {
            let v: Value = serde_json::from_str(&fs::read_to_string(&args[2]).unwrap()).unwrap();
            let text = v["case"]["text"].as_str().or(v["case"]["crash_case"].as_str()).unwrap().to_string();
            let (sig, min) = frontend::minimize_c09(&text, args.get(3).is_some());
            println!("{sig}\n{min}");
        }
        "minimize-c11" => {
            let v: Value = serde_json::from_str(&fs::read_to_string(&args[2]).unwrap()).unwrap();
            let text = v["case"]["text"].as_str().unwrap().to_string();
            let cfg: fmtchecks::FmtCfg = serde_json::from_value(v["case"]["cfg"].clone()).unwrap();
            let (sig, min) = fmtchecks::minimize_c11(&text, &cfg);
            println!("{sig}\t{}\t{min:?}", cfg.name());
        }
        "debug-format" => {
            let text = fs::read_to_string(&args[2]).unwrap();
            let cfg = if args.get(3).is_some() { fmtchecks::FmtCfg::default_cfg() } else { fmtchecks::FmtCfg { sort: false, merge: false, ..fmtchecks::FmtCfg::default_cfg() } };
            let f1 = fmtchecks::format_text(&text, &cfg);
            let f2 = fmtchecks::format_text(&f1, &cfg);
            let f3 = fmtchecks::format_text(&f2, &cfg);
            println!("--- pass 1\n{f1}--- pass 2\n{f2}--- pass 3 same as 2: {}\n--- check: {:?}", f3 == f2, fmtchecks::check_format(&text, &cfg));
            println!("--- imports before: {:?}\n--- imports after: {:?}", fmtchecks::extract(&text).uses, fmtchecks::extract(&f1).uses);
        }
        "debug-gen" => {
            let mut rng = rng::Rng::derive(seed, &[1, args[2].parse::<u64>().unwrap()]);
            let (p, _) = pgen::generate(&mut rng);
            println!("{}", pgen::render_program(&p));
        }
        "debug-gen-contract" => {
            for i in 0..args[2].parse::<u64>().unwrap() {
                let mut rng = rng::Rng::derive(seed, &[1906, i]);
                println!("// ---- {i}\n{}", classes::generate_contract(&mut rng, i));
            }
        }
        "debug-diag" => {
            let text = fs::read_to_string(&args[2]).unwrap();
            let plugins = if args.get(3).is_some() { comp::Plugins::Starknet } else { comp::Plugins::Default };
            let db = comp::build_db(&comp::Config::DEFAULT, plugins);
            let c = comp::virtual_crate("test", &text, &comp::latest_settings(), None);
            let (s, e) = comp::diagnostics(&db, &[c]);
            println!("errors={e}\n{s}");
        }
        "debug-parse" => {
            let text = fs::read_to_string(&args[2]).unwrap();
            frontend::debug_parse(&text);
        }
        _ => {
            eprintln!("unknown command {cmd}");
            std::process::exit(2);
        }
    }
}

/// The real tools run the compiler on the main thread (8 MiB stack); the worker uses a larger
/// stack only for checks that are not about stack usage.
fn run_worker_on_big_stack(id: &str, ctx: &mut Ctx) {
    let stack = checks::worker_stack_bytes(id);
    std::thread::scope(|s| {
        std::thread::Builder::new()
            .stack_size(stack)
            .spawn_scoped(s, || checks::worker(id, ctx))
            .expect("spawn worker thread")
            .join()
            .unwrap_or_else(|_| {
                eprintln!("worker thread panicked outside a monitored region");
                std::process::exit(101);
            });
    });
}

fn replay_file(id: &str, path: &str) -> i32 {
    let text = match fs::read_to_string(path) {
        Ok(t) => t,
        Err(e) => {
            eprintln!("cannot read replay {path}: {e}");
            return 2;
        }
    };
    let v: Value = serde_json::from_str(&text).expect("replay json");
    let case = v.get("case").cloned().unwrap_or(v.clone());
    match checks::replay(id, &case) {
        Ok(None) => {
            println!("REPLAY property={id} held replay={path}");
            0
        }
        Ok(Some(desc)) => {
            println!("REPLAY property={id} violated: {desc}");
            println!("VIOLATION property={id} replay={path}");
            1
        }
        Err(e) => {
            println!("REPLAY property={id} inconclusive: {e}");
            3
        }
    }
}

struct Running {
    shard: usize,
    child: Child,
    out: PathBuf,
    started: Instant,
    restarts: usize,
}

fn read_journal(out: &Path) -> Option<(u64, String)> {
    let data = fs::read(out.with_extension("journal")).ok()?;
    if data.len() < 16 {
        return None;
    }
    let idx = u64::from_le_bytes(data[0..8].try_into().unwrap());
    let len = u64::from_le_bytes(data[8..16].try_into().unwrap()) as usize;
    let desc = String::from_utf8_lossy(&data[16..(16 + len).min(data.len())]).to_string();
    Some((idx, desc))
}

fn spawn_worker(
    id: &str,
    tier: Tier,
    seed: u64,
    shard: usize,
    nshards: usize,
    start: u64,
    work: &Path,
    attempt: usize,
    rayon_threads: usize,
) -> (Child, PathBuf) {
    let out = work.join(format!("shard_{shard}_{attempt}.json"));
    let log = fs::File::create(work.join(format!("shard_{shard}_{attempt}.log"))).unwrap();
    let log2 = log.try_clone().unwrap();
    let exe = std::env::current_exe().unwrap();
    let child = Command::new(exe)
        .arg("worker")
        .arg(id)
        .args(["--tier", tier.name()])
        .args(["--seed", &seed.to_string()])
        .args(["--shard", &shard.to_string()])
        .args(["--nshards", &nshards.to_string()])
        .args(["--start", &start.to_string()])
        .arg("--out")
        .arg(&out)
        .env_remove("VERIF_TIER")
        .env("RAYON_NUM_THREADS", rayon_threads.to_string())
        .stdin(Stdio::null())
        .stdout(log)
        .stderr(log2)
        .spawn()
        .expect("spawn worker");
    (child, out)
}

fn drive(id: &str, tier: Tier, seed: u64) -> i32 {
    let Some(spec) = checks::spec(id) else {
        eprintln!("unknown property {id}");
        return 2;
    };
    let t0 = Instant::now();
    let work = Path::new(VERIF_DIR).join("work").join(id);
    let _ = fs::remove_dir_all(&work);
    fs::create_dir_all(&work).unwrap();

    // Replay the stored repro of every known finding of this property first.
    let mut known_replayed = vec![];
    for k in report::load_known_findings().into_iter().filter(|k| k.property == id) {
        if let Some(repro) = &k.repro {
            let path = Path::new(VERIF_DIR).join(repro);
            let still = fs::read_to_string(&path)
                .ok()
                .and_then(|t| serde_json::from_str::<Value>(&t).ok())
                .map(|v| {
                    let case = v.get("case").cloned().unwrap_or(v);
                    // A replay may crash the process for crash-type findings: use a subprocess.
                    replay_in_subprocess(id, &path, &case)
                })
                .unwrap_or(false);
            known_replayed.push((k, still));
        }
    }

    let nshards = (spec.shards)(tier).max(1);
    let timeout = Duration::from_secs((spec.worker_timeout_s)(tier));
    let mut running: Vec<Running> = vec![];
    for shard in 0..nshards {
        let (child, out) = spawn_worker(id, tier, seed, shard, nshards, 0, &work, 0, spec.rayon_threads);
        running.push(Running { shard, child, out, started: Instant::now(), restarts: 0 });
    }
    let mut merged = ShardResult::default();
    let mut run_inconclusive: Vec<String> = vec![];
    while !running.is_empty() {
        std::thread::sleep(Duration::from_millis(100));
        let mut i = 0;
        while i < running.len() {
            let r = &mut running[i];
            let status = match r.child.try_wait() {
                Ok(Some(st)) => Some(st),
                Ok(None) => {
                    if r.started.elapsed() > timeout {
                        let _ = r.child.kill();
                        let _ = r.child.wait();
                        let partial = load_shard(&r.out);
                        let j = read_journal(&r.out);
                        run_inconclusive.push(format!(
                            "watchdog: shard {} exceeded {}s at case {:?}",
                            r.shard,
                            timeout.as_secs(),
                            j.map(|(i, d)| format!("{i}: {}", d.chars().take(200).collect::<String>()))
                        ));
                        if let Some(p) = partial {
                            merged.merge(p);
                        }
                        running.swap_remove(i);
                        continue;
                    }
                    None
                }
                Err(e) => {
                    run_inconclusive.push(format!("wait failed: {e}"));
                    running.swap_remove(i);
                    continue;
                }
            };
            let Some(status) = status else {
                i += 1;
                continue;
            };
            let partial = load_shard(&r.out);
            let complete = partial.as_ref().map(|p| p.complete).unwrap_or(false);
            if status.success() && complete {
                merged.merge(partial.unwrap());
                running.swap_remove(i);
                continue;
            }
            // The worker died.
            let journal = read_journal(&r.out);
            let how = describe_status(&status);
            let log_tail = tail_of_log(&work, r.shard, r.restarts);
            if let Some(p) = partial {
                merged.merge(p);
            }
            if spec.crash_is_violation && journal.is_some() && r.restarts < 20 {
                let (idx, desc) = journal.unwrap();
                let sig = format!("crash:{}:{}", how, crash_site(&log_tail));
                merged.violations.push(Violation {
                    sig,
                    desc: format!("worker died ({how}) while running case {idx}: {}", log_tail.lines().last().unwrap_or("")),
                    replay: json!({"crash_case": desc, "index": idx, "how": how, "log_tail": log_tail}),
                });
                let shard = r.shard;
                let attempt = r.restarts + 1;
                let (child, out) = spawn_worker(id, tier, seed, shard, nshards, idx + 1, &work, attempt, spec.rayon_threads);
                running[i] = Running { shard, child, out, started: Instant::now(), restarts: attempt };
                i += 1;
            } else {
                run_inconclusive.push(format!(
                    "worker shard {} died ({how}) at {:?}; log tail: {}",
                    r.shard,
                    journal.map(|(i, _)| i),
                    log_tail.chars().rev().take(400).collect::<String>().chars().rev().collect::<String>()
                ));
                running.swap_remove(i);
            }
        }
    }
    // Sanitizer leg (thorough tier only): the same worker code, built with a compiler sanitizer.
    if tier == Tier::Thorough {
        if let Some((kind, nshards_leg)) = checks::sanitizer_leg(id) {
            let out = work.join(format!("{kind}.json"));
            let log = work.join(format!("{kind}.log"));
            let st = Command::new("/verif/sanitizer_leg.sh")
                .args([kind, id, &seed.to_string()])
                .arg(&out)
                .arg(&log)
                .env("VERIF_LEG_NSHARDS", nshards_leg.to_string())
                .stdin(Stdio::null())
                .status();
            match st.ok().and_then(|s| s.code()) {
                Some(0) => {
                    let leg = load_shard(&out).unwrap_or_default();
                    merged.count(&format!("sanitizer.{kind}.cases_run"), leg.evaluations);
                    merged.count(&format!("sanitizer.{kind}.reports"), 0);
                    merged.count(&format!("sanitizer.{kind}.violations_seen_by_monitor"), leg.violations.len() as u64);
                    merged.violations.extend(leg.violations);
                }
                Some(66) => {
                    let text = fs::read_to_string(&log).unwrap_or_default();
                    let summary = text.lines().find(|l| l.starts_with("SUMMARY:")).unwrap_or("sanitizer report").to_string();
                    let site: String = summary.split_whitespace().skip(2).take(3).collect::<Vec<_>>().join("_");
                    let tail: Vec<&str> = text.lines().collect();
                    merged.violations.push(Violation {
                        sig: format!("{kind}-report:{site}"),
                        desc: format!("{summary} (log {})", log.display()),
                        replay: json!({"sanitizer": kind, "log_tail": tail[tail.len().saturating_sub(60)..].join("\n")}),
                    });
                }
                other => run_inconclusive.push(format!("sanitizer leg {kind} could not run (status {other:?}); see {}", log.display())),
            }
        }
    }
    // Miri leg (thorough tier only): a parser-only database under the interpreter.
    if tier == Tier::Thorough && checks::miri_leg(id) {
        let log = work.join("miri.log");
        let st = Command::new("/verif/miri_leg.sh").args([id, &seed.to_string()]).arg(&log).stdin(Stdio::null()).status();
        let text = fs::read_to_string(&log).unwrap_or_default();
        let num = |line: &str, key: &str| -> u64 {
            line.split_whitespace().find_map(|w| w.strip_prefix(key)).and_then(|v| v.parse().ok()).unwrap_or(0)
        };
        match st.ok().and_then(|s| s.code()) {
            Some(0) => {
                let runs = text.lines().filter(|l| l.starts_with("MIRI-LEG ")).count() as u64;
                merged.count("miri.runs_clean", runs);
                merged.count("miri.revisions_compared", text.lines().map(|l| num(l, "revisions_compared=")).sum());
                merged.count("miri.nodes_compared", text.lines().map(|l| num(l, "nodes_compared=")).sum());
                merged.count("miri.concurrent_answers_compared", text.lines().map(|l| num(l, "concurrent_answers_compared=")).sum());
                if runs == 0 {
                    run_inconclusive.push(format!("miri leg produced no observation; see {}", log.display()));
                }
            }
            Some(66) => {
                let first = text.lines().find(|l| l.contains("MIRI-LEG-VIOLATION") || l.contains("Undefined Behavior") || l.contains("Data race")).unwrap_or("miri report").to_string();
                let kind = if first.contains("MIRI-LEG-VIOLATION") { "oracle" } else if first.contains("Data race") { "data-race" } else { "undefined-behaviour" };
                let tail: Vec<&str> = text.lines().collect();
                merged.violations.push(Violation {
                    sig: format!("miri-report:{kind}"),
                    desc: format!("{} (log {})", first.chars().take(300).collect::<String>(), log.display()),
                    replay: json!({"miri": true, "log_tail": tail[tail.len().saturating_sub(80)..].join("\n")}),
                });
            }
            other => run_inconclusive.push(format!("miri leg could not run (status {other:?}); see {}", log.display())),
        }
    }
    let wall = t0.elapsed().as_secs_f64();
    let summary = report::finalize(&spec, tier, seed, merged, wall, run_inconclusive, known_replayed);
    summary.exit_code
}

fn replay_in_subprocess(id: &str, path: &Path, _case: &Value) -> bool {
    let exe = std::env::current_exe().unwrap();
    let out = Command::new(exe)
        .args(["check", id, "--replay"])
        .arg(path)
        .stdin(Stdio::null())
        .output();
    match out {
        Ok(o) => match o.status.code() {
            Some(0) => false,
            Some(1) => true,
            Some(3) => false,
            // Died of a signal or panicked: for crash-type findings that is "still fails".
            _ => true,
        },
        Err(_) => false,
    }
}

fn load_shard(out: &Path) -> Option<ShardResult> {
    let data = fs::read(out).ok()?;
    serde_json::from_slice(&data).ok()
}

fn describe_status(st: &std::process::ExitStatus) -> String {
    use std::os::unix::process::ExitStatusExt;
    if let Some(sig) = st.signal() {
        match sig {
            6 => "SIGABRT".into(),
            9 => "SIGKILL".into(),
            11 => "SIGSEGV".into(),
            7 => "SIGBUS".into(),
            s => format!("signal{s}"),
        }
    } else {
        format!("exit{}", st.code().unwrap_or(-1))
    }
}

fn tail_of_log(work: &Path, shard: usize, attempt: usize) -> String {
    let p = work.join(format!("shard_{shard}_{attempt}.log"));
    let s = fs::read_to_string(p).unwrap_or_default();
    let lines: Vec<&str> = s.lines().collect();
    lines[lines.len().saturating_sub(12)..].join("\n")
}

/// Extracts a stable site descriptor from a crash log (stack overflow message, allocation failure,
/// sanitizer summary line).
fn crash_site(log: &str) -> String {
    for l in log.lines().rev() {
        if l.contains("has overflowed its stack") {
            return "stack-overflow".into();
        }
        if l.contains("memory allocation of") {
            return "alloc-failure".into();
        }
        if l.starts_with("SUMMARY:") {
            return l.split_whitespace().take(3).collect::<Vec<_>>().join("_");
        }
    }
    "unknown".into()
}
