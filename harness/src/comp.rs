//! Compilation helpers: databases under a configuration, virtual crates, diagnostics, Sierra.

use std::path::PathBuf;

use cairo_lang_compiler::db::RootDatabase;
use cairo_lang_compiler::diagnostics::DiagnosticsReporter;
use cairo_lang_compiler::{CompilerConfig, compile_prepared_db_program};
use cairo_lang_filesystem::db::{
    CrateSettings, Edition, ExperimentalFeaturesConfig, FilesGroup, init_dev_corelib,
};
use cairo_lang_filesystem::flag::{Flag, FlagsGroup};
use cairo_lang_filesystem::ids::{
    BlobLongId, CrateId, CrateInput, FileInput, FileKind, FlagLongId, VirtualFileInput,
};
use cairo_lang_lowering::optimizations::config::Optimizations;
use cairo_lang_lowering::utils::InliningStrategy;
use cairo_lang_sierra::program::Program;
use serde::{Deserialize, Serialize};

pub const CORELIB_SRC: &str = "/repo/corelib/src";

#[derive(Clone, Copy, Debug, Serialize, Deserialize, PartialEq, Eq, Hash, PartialOrd, Ord)]
pub enum Inl {
    Default,
    Avoid,
    Small(usize),
}

/// A compiler configuration (a point of the lattice of DESIGN.md C05).
#[derive(Clone, Copy, Debug, Serialize, Deserialize, PartialEq, Eq, Hash, PartialOrd, Ord)]
pub struct Config {
    /// `None` = optimizations disabled.
    pub opt: Option<(Inl, bool)>,
    pub match_threshold: Option<usize>,
    pub auto_gas: bool,
    /// Use the linear gas / ap-change solvers (the default) or the legacy ones.
    pub linear: bool,
}

impl Config {
    pub const DEFAULT: Config =
        Config { opt: Some((Inl::Default, false)), match_threshold: None, auto_gas: true, linear: true };
    pub const DISABLED: Config =
        Config { opt: None, match_threshold: None, auto_gas: true, linear: true };

    pub fn name(&self) -> String {
        let opt = match self.opt {
            None => "noopt".to_string(),
            Some((inl, skip)) => format!(
                "opt-{}{}",
                match inl {
                    Inl::Default => "inldef".to_string(),
                    Inl::Avoid => "inlavoid".to_string(),
                    Inl::Small(k) => format!("inl{k}"),
                },
                if skip { "-nocf" } else { "" }
            ),
        };
        format!(
            "{opt}{}{}{}",
            self.match_threshold.map(|t| format!("-mt{t}")).unwrap_or_default(),
            if self.auto_gas { "" } else { "-nogas" },
            if self.linear { "" } else { "-legacy" }
        )
    }

    pub fn optimizations(&self) -> Optimizations {
        match self.opt {
            None => Optimizations::Disabled,
            Some((inl, skip)) => {
                let strategy = match inl {
                    Inl::Default => InliningStrategy::Default,
                    Inl::Avoid => InliningStrategy::Avoid,
                    Inl::Small(k) => InliningStrategy::InlineSmallFunctions(k),
                };
                match Optimizations::enabled_with_default_movable_functions(strategy) {
                    Optimizations::Enabled(c) => {
                        Optimizations::Enabled(c.with_skip_const_folding(skip))
                    }
                    d => d,
                }
            }
        }
    }

    /// The lattice used by C05 and friends.
    pub fn lattice(thorough: bool) -> Vec<Config> {
        let d = Config::DEFAULT;
        let mut v = vec![
            Config::DISABLED,
            d,
            Config { opt: Some((Inl::Avoid, false)), ..d },
            Config { opt: Some((Inl::Small(5000), false)), ..d },
            Config { opt: Some((Inl::Default, true)), ..d },
            Config { match_threshold: Some(1), ..d },
            Config { linear: false, ..d },
        ];
        if thorough {
            for inl in [Inl::Small(0), Inl::Small(1), Inl::Small(20), Inl::Small(200)] {
                v.push(Config { opt: Some((inl, false)), ..d });
            }
            v.push(Config { opt: Some((Inl::Avoid, true)), ..d });
            v.push(Config { opt: Some((Inl::Small(5000), true)), ..d });
            v.push(Config { match_threshold: Some(2), ..d });
            v.push(Config { match_threshold: Some(1000), ..d });
            v.push(Config { match_threshold: Some(1), opt: Some((Inl::Small(5000), false)), ..d });
            v.push(Config { match_threshold: Some(1), opt: Some((Inl::Avoid, true)), ..d });
            v.push(Config { linear: false, ..Config::DISABLED });
            v.push(Config { linear: false, opt: Some((Inl::Small(5000), false)), ..d });
            v.push(Config { linear: false, opt: Some((Inl::Avoid, false)), ..d });
        }
        v
    }
}

#[derive(Clone, Copy, Debug, PartialEq, Eq)]
pub enum Plugins {
    Default,
    Starknet,
    Test,
    StarknetTest,
}

/// Builds a database for the configuration, with the development corelib of /repo.
pub fn build_db(cfg: &Config, plugins: Plugins) -> RootDatabase {
    let mut b = RootDatabase::builder();
    b.with_optimizations(cfg.optimizations());
    if !cfg.auto_gas {
        b.skip_auto_withdraw_gas();
    }
    match plugins {
        Plugins::Default => {}
        Plugins::Starknet => {
            b.with_default_plugin_suite(cairo_lang_starknet::starknet_plugin_suite());
        }
        Plugins::Test => {
            b.with_cfg(cairo_lang_filesystem::cfg::CfgSet::from_iter([
                cairo_lang_filesystem::cfg::Cfg::name("test"),
                cairo_lang_filesystem::cfg::Cfg::kv("target", "test"),
            ]));
            b.with_default_plugin_suite(cairo_lang_test_plugin::test_plugin_suite());
        }
        Plugins::StarknetTest => {
            b.with_cfg(cairo_lang_filesystem::cfg::CfgSet::from_iter([
                cairo_lang_filesystem::cfg::Cfg::name("test"),
                cairo_lang_filesystem::cfg::Cfg::kv("target", "test"),
            ]));
            b.with_default_plugin_suite(cairo_lang_test_plugin::test_plugin_suite());
            b.with_default_plugin_suite(cairo_lang_starknet::starknet_plugin_suite());
        }
    }
    let mut db = b.build().expect("db build");
    init_dev_corelib(&mut db, PathBuf::from(CORELIB_SRC));
    if let Some(t) = cfg.match_threshold {
        db.set_flag(
            FlagLongId(Flag::NUMERIC_MATCH_OPTIMIZATION_MIN_ARMS_THRESHOLD.into()),
            Some(Flag::NumericMatchOptimizationMinArmsThreshold(t)),
        );
    }
    db
}

pub fn default_settings() -> CrateSettings {
    CrateSettings {
        name: None,
        edition: Edition::default(),
        version: None,
        dependencies: Default::default(),
        experimental_features: ExperimentalFeaturesConfig {
            negative_impls: true,
            associated_item_constraints: true,
            coupons: true,
            user_defined_inline_macros: true,
            repr_ptrs: true,
        },
        cfg_set: Default::default(),
    }
}

pub fn latest_settings() -> CrateSettings {
    CrateSettings { edition: Edition::latest(), ..default_settings() }
}

/// A single-file virtual crate.
pub fn virtual_crate(
    name: &str,
    content: &str,
    settings: &CrateSettings,
    cache_file: Option<BlobLongId>,
) -> CrateInput {
    CrateInput::Virtual {
        name: name.to_string(),
        file_long_id: FileInput::Virtual(VirtualFileInput {
            parent: None,
            name: "lib.cairo".to_string(),
            content: content.into(),
            code_mappings: [].into(),
            kind: FileKind::Module,
            original_item_removed: false,
        }),
        settings: toml::to_string_pretty(settings).expect("settings toml"),
        cache_file,
    }
}

/// Diagnostics of the crates as one string, and whether there were errors.
pub fn diagnostics(db: &RootDatabase, crates: &[CrateInput]) -> (String, bool) {
    let mut s = String::new();
    let has_errors = DiagnosticsReporter::write_to_string(&mut s)
        .with_crates(crates)
        .allow_warnings()
        .check(db);
    (s, has_errors)
}

/// Compiles the crates to a Sierra program with debug-name ids.
pub fn sierra(db: &RootDatabase, crates: &[CrateInput]) -> Result<Program, String> {
    let mut diag = String::new();
    let ids: Vec<CrateId<'_>> = CrateInput::into_crate_ids(db, crates.to_vec());
    let r = compile_prepared_db_program(
        db,
        ids,
        CompilerConfig {
            diagnostics_reporter: DiagnosticsReporter::write_to_string(&mut diag)
                .with_crates(crates)
                .allow_warnings(),
            replace_ids: true,
            ..Default::default()
        },
    );
    match r {
        Ok(p) => Ok(p),
        Err(e) => Err(format!("{e}\n{diag}")),
    }
}

/// One-stop: source text -> Sierra under a configuration.
pub fn compile_text(cfg: &Config, plugins: Plugins, content: &str) -> Result<Program, String> {
    let db = build_db(cfg, plugins);
    let c = virtual_crate("test", content, &default_settings(), None);
    sierra(&db, &[c])
}

/// Touch the files group so that unused-import lints stay quiet.
#[allow(dead_code)]
pub fn crate_count(db: &RootDatabase) -> usize {
    db.crates().len()
}
