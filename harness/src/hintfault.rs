//! C03: results do not depend on prover-supplied hint values. A wrapper around the runner's
//! honest hint processor pre-writes mutated values into the output cells of one hint occurrence
//! (memory is write-once, so the honest write of a different value is swallowed) and the decoded
//! result of the faulty run is compared with the honest run's.

use std::any::Any;
use std::collections::{BTreeMap, HashMap, HashSet};
use std::sync::Arc;

use cairo_lang_casm::hints::{CoreHint, CoreHintBase, DeprecatedHint, Hint};
use cairo_lang_casm::operand::{CellRef, ResOperand};
use cairo_lang_runner::casm_run::{
    CairoHintProcessor, StarknetHintProcessor, cell_ref_to_relocatable, get_ptr, get_val,
};
use cairo_lang_runner::{Arg, StarknetExecutionResources, StarknetState};
use cairo_lang_sierra::program::Function;
use cairo_vm::hint_processor::hint_processor_definition::{HintProcessorLogic, HintReference};
use cairo_vm::serde::deserialize_program::ApTracking;
use cairo_vm::types::exec_scope::ExecutionScopes;
use cairo_vm::types::relocatable::{MaybeRelocatable, Relocatable};
use cairo_vm::vm::errors::hint_errors::HintError;
use cairo_vm::vm::errors::vm_errors::VirtualMachineError;
use cairo_vm::vm::runners::cairo_runner::{ResourceTracker, RunResources};
use cairo_vm::vm::vm_core::VirtualMachine;
use num_bigint::BigInt;
use num_traits::{One, Zero};
use rayon::prelude::*;
use serde_json::json;
use starknet_types_core::felt::Felt as Felt252;

use crate::comp::Config;
use crate::exec::{self, Prog};
use crate::execchecks::{AMPLE_GAS, compile_cached, snippet_cases};
use crate::frontend::{guarded, install_panic_hook, panic_sig};
use crate::metamorph::{Obs, observe};
use crate::report::{Ctx, ShardResult, Tier};
use crate::rng::{Rng, fnv_str};
use crate::values::{self, felt_prime};

/// One recorded hint occurrence of the honest run.
#[derive(Clone, Debug)]
pub struct Occurrence {
    pub index: usize,
    pub pc: usize,
    pub kind: String,
    /// Output cells and the values the honest hint wrote; None if the cell was already set
    /// before the hint ran (then the prover does not control it here).
    pub outputs: Vec<(Relocatable, Option<MaybeRelocatable>)>,
    /// Operand values useful for coordinated alternatives (by role name).
    pub operands: BTreeMap<&'static str, Felt252>,
}

/// What to do at one occurrence in a faulty run.
#[derive(Clone, Debug)]
pub struct Fault {
    pub occurrence: usize,
    /// (output index, value to pre-write).
    pub writes: Vec<(usize, MaybeRelocatable)>,
    pub class: String,
}

fn variant_name(h: &CoreHint) -> String {
    format!("{h:?}").split([' ', '{', '(']).next().unwrap_or("?").to_string()
}

/// Output cells of a core hint in the current VM state.
fn output_cells(vm: &VirtualMachine, h: &CoreHint) -> Vec<Relocatable> {
    let c = |r: &CellRef| cell_ref_to_relocatable(r, vm);
    let ptr = |r: &ResOperand| -> Option<Relocatable> { get_ptr(vm, extract_cell(r)?, &extract_offset(r)).ok() };
    match h {
        CoreHint::AllocSegment { dst } => vec![c(dst)],
        CoreHint::TestLessThan { dst, .. } | CoreHint::TestLessThanOrEqual { dst, .. } | CoreHint::TestLessThanOrEqualAddress { dst, .. } => vec![c(dst)],
        CoreHint::WideMul128 { high, low, .. } => vec![c(high), c(low)],
        CoreHint::DivMod { quotient, remainder, .. } => vec![c(quotient), c(remainder)],
        CoreHint::Uint256DivMod { quotient0, quotient1, remainder0, remainder1, .. } => vec![c(quotient0), c(quotient1), c(remainder0), c(remainder1)],
        CoreHint::Uint512DivModByUint256 { quotient0, quotient1, quotient2, quotient3, remainder0, remainder1, .. } => {
            vec![c(quotient0), c(quotient1), c(quotient2), c(quotient3), c(remainder0), c(remainder1)]
        }
        CoreHint::SquareRoot { dst, .. } => vec![c(dst)],
        CoreHint::Uint256SquareRoot { sqrt0, sqrt1, remainder_low, remainder_high, sqrt_mul_2_minus_remainder_ge_u128, .. } => {
            vec![c(sqrt0), c(sqrt1), c(remainder_low), c(remainder_high), c(sqrt_mul_2_minus_remainder_ge_u128)]
        }
        CoreHint::LinearSplit { x, y, .. } => vec![c(x), c(y)],
        CoreHint::GetSegmentArenaIndex { dict_index, .. } => vec![c(dict_index)],
        CoreHint::InitSquashData { big_keys, first_key, .. } => vec![c(big_keys), c(first_key)],
        CoreHint::ShouldSkipSquashLoop { should_skip_loop } => vec![c(should_skip_loop)],
        CoreHint::GetCurrentAccessDelta { index_delta_minus1 } => vec![c(index_delta_minus1)],
        CoreHint::ShouldContinueSquashLoop { should_continue } => vec![c(should_continue)],
        CoreHint::GetNextDictKey { next_key } => vec![c(next_key)],
        CoreHint::AssertLeIsFirstArcExcluded { skip_exclude_a_flag } => vec![c(skip_exclude_a_flag)],
        CoreHint::AssertLeIsSecondArcExcluded { skip_exclude_b_minus_a } => vec![c(skip_exclude_b_minus_a)],
        CoreHint::RandomEcPoint { x, y } => vec![c(x), c(y)],
        CoreHint::FieldSqrt { sqrt, .. } => vec![c(sqrt)],
        CoreHint::AllocConstantSize { dst, .. } => vec![c(dst)],
        CoreHint::U256InvModN { g0_or_no_inv, g1_option, s_or_r0, s_or_r1, t_or_k0, t_or_k1, .. } => {
            vec![c(g0_or_no_inv), c(g1_option), c(s_or_r0), c(s_or_r1), c(t_or_k0), c(t_or_k1)]
        }
        CoreHint::Felt252DictEntryInit { dict_ptr, .. } => ptr(dict_ptr).and_then(|p| (p + 1usize).ok()).into_iter().collect(),
        CoreHint::GetCurrentAccessIndex { range_check_ptr } => ptr(range_check_ptr).into_iter().collect(),
        CoreHint::AssertLeFindSmallArcs { range_check_ptr, .. } => match ptr(range_check_ptr) {
            Some(p) => (0..4usize).filter_map(|i| (p + i).ok()).collect(),
            None => vec![],
        },
        CoreHint::AllocFelt252Dict { segment_arena_ptr } => {
            // The new dict's start pointer goes to infos[3 * n_dicts].
            let Some(arena) = ptr(segment_arena_ptr) else { return vec![] };
            let infos = (arena - 3usize).ok().and_then(|a| vm.get_relocatable(a).ok());
            let n = (arena - 2usize).ok().and_then(|a| vm.get_integer(a).ok()).and_then(|f| usize::try_from(f.to_biguint()).ok());
            match (infos, n) {
                (Some(i), Some(n)) => (i + 3 * n).ok().into_iter().collect(),
                _ => vec![],
            }
        }
        CoreHint::Felt252DictEntryUpdate { .. } | CoreHint::DebugPrint { .. } | CoreHint::EvalCircuit { .. } => vec![],
    }
}

fn extract_cell(r: &ResOperand) -> Option<&CellRef> {
    match r {
        ResOperand::Deref(c) => Some(c),
        ResOperand::BinOp(b) => Some(&b.a),
        _ => None,
    }
}
fn extract_offset(r: &ResOperand) -> Felt252 {
    match r {
        ResOperand::BinOp(b) => match &b.b {
            cairo_lang_casm::operand::DerefOrImmediate::Immediate(v) => Felt252::from(v.value.clone()),
            _ => Felt252::from(0),
        },
        _ => Felt252::from(0),
    }
}

fn operand_values(vm: &VirtualMachine, h: &CoreHint) -> BTreeMap<&'static str, Felt252> {
    let mut m = BTreeMap::new();
    let mut put = |k: &'static str, r: &ResOperand| {
        if let Ok(v) = get_val(vm, r) {
            m.insert(k, v);
        }
    };
    match h {
        CoreHint::DivMod { lhs, rhs, .. } | CoreHint::WideMul128 { lhs, rhs, .. } | CoreHint::TestLessThan { lhs, rhs, .. } | CoreHint::TestLessThanOrEqual { lhs, rhs, .. } => {
            put("lhs", lhs);
            put("rhs", rhs);
        }
        CoreHint::LinearSplit { value, scalar, max_x, .. } => {
            put("value", value);
            put("scalar", scalar);
            put("max_x", max_x);
        }
        CoreHint::SquareRoot { value, .. } => put("value", value),
        CoreHint::FieldSqrt { val, .. } => put("value", val),
        _ => {}
    }
    m
}

/// The wrapper: records occurrences, and injects one fault if asked to.
pub struct FaultyHintProcessor<'a> {
    pub inner: CairoHintProcessor<'a>,
    pub counter: usize,
    pub log: Vec<Occurrence>,
    pub fault: Option<Fault>,
    /// The honest log of the same run (to fill the outputs the swallowed hint did not write).
    pub honest: Arc<Vec<Occurrence>>,
    pub load_offset_hint: usize,
    pub injected: bool,
    pub not_injectable: bool,
}

fn is_inconsistent(e: &HintError) -> bool {
    format!("{e}").contains("Inconsistent memory") || format!("{e:?}").contains("InconsistentMemory")
}

impl HintProcessorLogic for FaultyHintProcessor<'_> {
    fn execute_hint(&mut self, vm: &mut VirtualMachine, exec_scopes: &mut ExecutionScopes, hint_data: &Box<dyn Any>) -> Result<(), HintError> {
        let Some(Hint::Core(base)) = hint_data.downcast_ref::<Hint>() else {
            // Syscalls, cheatcodes and external (entry code) hints are not prover witnesses of
            // the program.
            return self.inner.execute_hint(vm, exec_scopes, hint_data);
        };
        let core = match base {
            CoreHintBase::Core(c) => c,
            CoreHintBase::Deprecated(d) => {
                let _: &DeprecatedHint = d;
                return self.inner.execute_hint(vm, exec_scopes, hint_data);
            }
        };
        let index = self.counter;
        self.counter += 1;
        let cells = output_cells(vm, core);
        let before: Vec<bool> = cells.iter().map(|c| vm.get_maybe(c).is_some()).collect();
        let fault = self.fault.as_ref().filter(|f| f.occurrence == index).cloned();
        if let Some(f) = fault {
            if f.writes.iter().any(|(i, _)| before.get(*i).copied().unwrap_or(true)) {
                self.not_injectable = true;
                return self.inner.execute_hint(vm, exec_scopes, hint_data);
            }
            for (i, v) in &f.writes {
                vm.insert_value(cells[*i], v.clone()).map_err(HintError::Memory)?;
            }
            self.injected = true;
            match self.inner.execute_hint(vm, exec_scopes, hint_data) {
                Ok(()) => {}
                Err(e) if is_inconsistent(&e) => {}
                Err(e) => return Err(e),
            }
            // Fill what the interrupted honest hint did not get to write.
            if let Some(h) = self.honest.get(index) {
                for (ci, (_, hv)) in h.outputs.iter().enumerate() {
                    if let (Some(cell), Some(v)) = (cells.get(ci), hv) {
                        if vm.get_maybe(cell).is_none() {
                            vm.insert_value(*cell, v.clone()).map_err(HintError::Memory)?;
                        }
                    }
                }
            }
            return Ok(());
        }
        let operands = operand_values(vm, core);
        let pc = vm.get_pc().offset;
        let r = self.inner.execute_hint(vm, exec_scopes, hint_data);
        if self.fault.is_none() {
            let outputs = cells
                .iter()
                .zip(before.iter())
                .map(|(c, was_set)| (*c, if *was_set { None } else { vm.get_maybe(c) }))
                .collect();
            self.log.push(Occurrence { index, pc, kind: variant_name(core), outputs, operands });
        }
        r
    }

    #[allow(clippy::disallowed_types)]
    fn compile_hint(
        &self,
        hint_code: &str,
        ap_tracking_data: &ApTracking,
        reference_ids: &std::collections::HashMap<String, usize>,
        references: &[HintReference],
        accessible_scopes: &[String],
        constants: Arc<std::collections::HashMap<String, Felt252>>,
    ) -> Result<Box<dyn Any>, VirtualMachineError> {
        self.inner.compile_hint(hint_code, ap_tracking_data, reference_ids, references, accessible_scopes, constants)
    }
}

impl ResourceTracker for FaultyHintProcessor<'_> {
    fn consumed(&self) -> bool {
        self.inner.consumed()
    }
    fn consume_step(&mut self) {
        self.inner.consume_step()
    }
    fn get_n_steps(&self) -> Option<usize> {
        self.inner.get_n_steps()
    }
    fn run_resources(&self) -> &RunResources {
        self.inner.run_resources()
    }
}

impl StarknetHintProcessor for FaultyHintProcessor<'_> {
    fn take_starknet_state(&mut self) -> StarknetState {
        self.inner.take_starknet_state()
    }
    fn take_syscalls_used_resources(&mut self) -> StarknetExecutionResources {
        self.inner.take_syscalls_used_resources()
    }
}

fn felt(v: &BigInt) -> MaybeRelocatable {
    MaybeRelocatable::Int(values::to_felt(v))
}

/// Mutations of one occurrence.
pub fn faults_for(occ: &Occurrence, rng: &mut Rng, thorough: bool) -> Vec<Fault> {
    let mut out = vec![];
    let p = felt_prime();
    let honest_vals: Vec<Option<MaybeRelocatable>> = occ.outputs.iter().map(|(_, v)| v.clone()).collect();
    let mut push = |class: &str, writes: Vec<(usize, MaybeRelocatable)>| {
        // A "fault" that writes the honest values is no fault.
        if writes.iter().all(|(i, v)| honest_vals.get(*i).and_then(|h| h.as_ref()) == Some(v)) {
            return;
        }
        out.push(Fault { occurrence: occ.index, writes, class: class.to_string() });
    };
    let ints: Vec<Option<BigInt>> = occ
        .outputs
        .iter()
        .map(|(_, v)| match v {
            Some(MaybeRelocatable::Int(f)) => Some(f.to_bigint()),
            _ => None,
        })
        .collect();
    for (i, (_, v)) in occ.outputs.iter().enumerate() {
        match v {
            None => {}
            Some(MaybeRelocatable::Int(f)) => {
                let x = f.to_bigint();
                if x.is_zero() || x.is_one() {
                    push("flip", vec![(i, felt(&(BigInt::one() - &x)))]);
                    push("two", vec![(i, felt(&BigInt::from(2)))]);
                }
                push("plus1", vec![(i, felt(&(&x + 1)))]);
                push("minus1", vec![(i, felt(&(&x - 1)))]);
                push("negate", vec![(i, felt(&(&p - &x)))]);
                push("plus2^128", vec![(i, felt(&(&x + (BigInt::one() << 128))))]);
                if thorough {
                    push("plus2^64", vec![(i, felt(&(&x + (BigInt::one() << 64))))]);
                    push("minus2^128", vec![(i, felt(&(&x - (BigInt::one() << 128))))]);
                    if !x.is_zero() {
                        push("zero", vec![(i, felt(&BigInt::zero()))]);
                    }
                }
                let mut r = BigInt::zero();
                for _ in 0..4 {
                    r = (r << 64) + BigInt::from(rng.next_u64());
                }
                push("random", vec![(i, felt(&(r % &p)))]);
            }
            Some(MaybeRelocatable::RelocatableValue(r)) => {
                // A pointer chosen by the prover: alias an existing segment at a far offset, or
                // an earlier part of the same segment family.
                push("alias-exec-segment", vec![(i, MaybeRelocatable::RelocatableValue(Relocatable::from((1, 1_000_000 + rng.below(1000)))))]);
                push("alias-program-segment", vec![(i, MaybeRelocatable::RelocatableValue(Relocatable::from((0, 0))))]);
                if r.segment_index > 2 {
                    push("alias-previous-segment", vec![(i, MaybeRelocatable::RelocatableValue(Relocatable::from((r.segment_index - 1, r.offset))))]);
                }
                push("pointer-to-felt", vec![(i, felt(&BigInt::from(12345)))]);
            }
        }
    }
    // Coordinated alternative decompositions.
    let g = |k: &str| occ.operands.get(k).map(|f| f.to_bigint());
    match (occ.kind.as_str(), ints.as_slice()) {
        ("DivMod", [Some(q), Some(r)]) => {
            if let Some(d) = g("rhs") {
                push("divmod-q+1", vec![(0, felt(&(q + 1))), (1, felt(&(r - &d)))]);
                push("divmod-q-1", vec![(0, felt(&(q - 1))), (1, felt(&(r + &d)))]);
            }
        }
        ("WideMul128", [Some(hi), Some(lo)]) => {
            let b = BigInt::one() << 128;
            push("widemul-hi+1", vec![(0, felt(&(hi + 1))), (1, felt(&(lo - &b)))]);
            push("widemul-hi-1", vec![(0, felt(&(hi - 1))), (1, felt(&(lo + &b)))]);
        }
        ("LinearSplit", [Some(x), Some(y)]) => {
            if let Some(s) = g("scalar") {
                push("linsplit-x+1", vec![(0, felt(&(x + 1))), (1, felt(&(y - &s)))]);
                push("linsplit-x-1", vec![(0, felt(&(x - 1))), (1, felt(&(y + &s)))]);
            }
        }
        ("RandomEcPoint", [Some(x), Some(y)]) => {
            push("ec-negated-point", vec![(0, felt(x)), (1, felt(&(&p - y)))]);
            push("ec-off-curve", vec![(0, felt(x)), (1, felt(&(y + 1)))]);
            // Another point of the curve: the generator.
            let gx: BigInt = "874739451078007766457464989774322083649278607533249481151382481072868806602".parse().unwrap();
            let gy: BigInt = "152666792071518830868575557812948353041420400780739481342941381225525861407".parse().unwrap();
            push("ec-generator", vec![(0, felt(&gx)), (1, felt(&gy))]);
            push("ec-minus-generator", vec![(0, felt(&gx)), (1, felt(&(&p - &gy)))]);
        }
        ("Uint256DivMod", [Some(q0), Some(q1), Some(r0), Some(r1)]) => {
            let b = BigInt::one() << 128;
            push("u256divmod-limb-carry-q", vec![(0, felt(&(q0 + &b))), (1, felt(&(q1 - 1))), (2, felt(r0)), (3, felt(r1))]);
            push("u256divmod-limb-carry-r", vec![(0, felt(q0)), (1, felt(q1)), (2, felt(&(r0 + &b))), (3, felt(&(r1 - 1)))]);
        }
        _ => {}
    }
    out
}

pub struct FaultStats {
    pub rejected: u64,
    pub benign: u64,
    pub not_injectable: u64,
}

/// Runs `func` with a hint wrapper; returns the observation and the wrapper's log.
fn run_wrapped(prog: &Prog, func: &Function, args: Vec<Arg>, fault: Option<Fault>, honest: Arc<Vec<Occurrence>>) -> (Obs, Vec<Occurrence>, bool, bool) {
    let mut log = vec![];
    let mut injected = false;
    let mut not_injectable = false;
    let mut wrap = |inner: CairoHintProcessor<'_>, go: &mut dyn FnMut(&mut dyn StarknetHintProcessor) -> Result<cairo_lang_runner::casm_run::RunFunctionResult, String>| {
        // Safety of lifetimes: the wrapper lives only inside this closure.
        let mut w = FaultyHintProcessor { inner, counter: 0, log: vec![], fault: fault.clone(), honest: honest.clone(), load_offset_hint: 0, injected: false, not_injectable: false };
        let r = go(&mut w);
        log = std::mem::take(&mut w.log);
        injected = w.injected;
        not_injectable = w.not_injectable;
        r
    };
    let rec = exec::run_with(prog, func, args, Some(AMPLE_GAS), Some(&mut wrap));
    (observe(prog, func, &rec), log, injected, not_injectable)
}

/// All faulty runs of one (function, argument vector).
#[allow(clippy::too_many_arguments)]
pub fn fault_runs(acc: &mut ShardResult, prog: &Prog, func: &Function, args: &[Arg], case_id: &str, replay: &serde_json::Value, seed: u64, thorough: bool, seen_sites: &mut HashMap<usize, usize>) {
    let (honest_obs, log, _, _) = run_wrapped(prog, func, args.to_vec(), None, Arc::new(vec![]));
    if !matches!(honest_obs, Obs::Value(_) | Obs::Panic(_)) {
        acc.inconclusive("honest run not comparable");
        return;
    }
    // The recording wrapper must not change the run.
    let plain = observe(prog, func, &exec::run(prog, func, args.to_vec(), Some(AMPLE_GAS)));
    if plain != honest_obs {
        acc.harness_error(format!("{case_id}: the recording wrapper changes the honest result"));
        return;
    }
    acc.count("honest_runs", 1);
    acc.count("hint_occurrences_seen", log.len() as u64);
    let honest = Arc::new(log);
    let mut rng = Rng::derive(seed, &[3, fnv_str(case_id)]);
    for occ in honest.iter() {
        // The first 2 occurrences per static site (pc) per function.
        let n = seen_sites.entry(occ.pc).or_insert(0);
        if *n >= 2 {
            continue;
        }
        *n += 1;
        if occ.outputs.is_empty() {
            acc.count("occurrences_without_modelled_outputs", 1);
            acc.set_add("hint_kinds_without_modelled_outputs", &occ.kind);
            continue;
        }
        for fault in faults_for(occ, &mut rng, thorough) {
            acc.eval();
            let key = format!("hint.{}", occ.kind);
            let (obs, _, injected, not_injectable) = match guarded(|| run_wrapped(prog, func, args.to_vec(), Some(fault.clone()), honest.clone())) {
                Ok(x) => x,
                Err(_) => {
                    // The honest hint code itself gave up on the lie (e.g. a pointer that is no
                    // dictionary): no trace was produced, which is a rejection.
                    acc.nontrivial(fnv_str(&format!("{}|{}|{}|{}", fnv_str(case_id), occ.pc, occ.kind, fault.class)));
                    acc.set_add("hint_kinds_mutated", &occ.kind);
                    acc.count(&format!("{key}.rejected_by_hint_code_panic"), 1);
                    continue;
                }
            };
            if not_injectable || !injected {
                acc.count(&format!("{key}.not_injectable"), 1);
                continue;
            }
            acc.nontrivial(fnv_str(&format!("{}|{}|{}|{}", fnv_str(case_id), occ.pc, occ.kind, fault.class)));
            acc.set_add("hint_kinds_mutated", &occ.kind);
            if acc.samples.len() < 2 && fault.class != "plus1" {
                acc.sample(json!({"run": case_id, "hint": occ.kind, "pc": occ.pc, "occurrence": occ.index, "fault": fault.class,
                    "honest_outputs": occ.outputs.iter().map(|(_, v)| v.as_ref().map(|x| x.to_string())).collect::<Vec<_>>(),
                    "faulty_writes": fault.writes.iter().map(|(i, v)| format!("out{i}={v}")).collect::<Vec<_>>(),
                    "outcome": format!("{obs:?}").chars().take(100).collect::<String>(), "honest_result": short(&honest_obs)}));
            }
            match &obs {
                Obs::NotComparable(why) if why.contains("VmError") => acc.count(&format!("{key}.rejected_by_vm"), 1),
                o if *o == honest_obs => {
                    acc.count(&format!("{key}.benign_same_result"), 1);
                    acc.set_add("benign_fault_classes", &format!("{}:{}", occ.kind, fault.class));
                }
                Obs::OutOfGas | Obs::NotComparable(_) => acc.inconclusive("faulty run not comparable"),
                o => {
                    acc.violation(
                        &format!("result-changed:{}:{}", occ.kind, fault.class),
                        &format!("{case_id}: with hint occurrence #{} ({} at pc {}) answering {:?} instead of {:?} the run SUCCEEDS with {} instead of {}", occ.index, occ.kind, occ.pc,
                            fault.writes.iter().map(|(i, v)| format!("out{i}={v}")).collect::<Vec<_>>(), occ.outputs.iter().map(|(_, v)| v.as_ref().map(|x| x.to_string())).collect::<Vec<_>>(), short(o), short(&honest_obs)),
                        replay.clone(),
                    );
                    return;
                }
            }
        }
    }
}

fn short(o: &Obs) -> String {
    let s = format!("{o:?}");
    if s.len() > 160 { format!("{}...", &s[..160]) } else { s }
}

/// Programs with scalar parameters that reach the dictionary, squash, EC and felt-comparison hints.
pub const HINT_COVERAGE_PROGRAMS: &[(&str, &str)] = &[
    ("cover::dict_small_keys", "fn f(k1: u8, k2: u8, v: u8) -> u16 {
    let mut d: Felt252Dict<u16> = Default::default();
    d.insert(k1.into(), v.into());
    d.insert(k2.into(), 7);
    d.insert(k1.into(), 9);
    let a = d.get(k1.into());
    let b = d.get(k2.into());
    let c = d.get(1000);
    a + b + c
}"),
    ("cover::dict_big_keys", "fn f(k1: felt252, k2: felt252, v: u8) -> u16 {
    let mut d: Felt252Dict<u16> = Default::default();
    d.insert(k1, v.into());
    d.insert(k2 + 0x100000000000000000000000000000000, 7);
    d.insert(k1, 9);
    d.insert(-1, 4);
    let a = d.get(k1);
    let b = d.get(-1);
    a + b
}"),
    ("cover::two_dicts", "fn f(k: u8, v: u8) -> u8 {
    let mut d1: Felt252Dict<u8> = Default::default();
    let mut d2: Felt252Dict<u8> = Default::default();
    d1.insert(k.into(), v);
    d2.insert(k.into(), 1);
    d2.insert(3, 2);
    d1.get(k.into()) / 2 + d2.get(3) + d2.get(k.into())
}"),
    ("cover::dict_entry", "use core::dict::Felt252DictEntryTrait;
fn f(k: u8, v: u8) -> u8 {
    let mut d: Felt252Dict<u8> = Default::default();
    let (e, prev) = d.entry(k.into());
    let mut d = e.finalize(v);
    let (e, prev2) = d.entry(k.into());
    let mut d = e.finalize(prev2 / 2);
    prev + d.get(k.into())
}"),
    ("cover::dict_single_key", "fn f(k: felt252, v: u8) -> u8 {
    let mut d: Felt252Dict<u8> = Default::default();
    d.insert(k, v);
    d.get(k)
}"),
    ("cover::dict_single_key_squash", "fn f(k: felt252, v: u8) -> u8 {
    let mut d: Felt252Dict<u8> = Default::default();
    d.insert(k, v);
    d.insert(k, v / 2);
    let r = d.get(k);
    let _s = d.squash();
    r
}"),
    ("cover::dict_neighbour_keys", "fn f(k: felt252, v: u8) -> u8 {
    let mut d: Felt252Dict<u8> = Default::default();
    d.insert(k, v);
    d.insert(k + 1, 1);
    d.insert(k - 1, 2);
    d.get(k) / 2 + d.get(k + 1) + d.get(k - 1)
}"),
    ("cover::dict_untouched", "fn f(k: felt252) -> u8 {
    let mut d: Felt252Dict<u8> = Default::default();
    let r = d.get(k);
    let mut e: Felt252Dict<u8> = Default::default();
    r + e.get(0)
}"),
    ("cover::dict_nullable", "use core::nullable::{NullableTrait, match_nullable, FromNullableResult};
fn f(k: felt252, v: u64) -> u64 {
    let mut d: Felt252Dict<Nullable<u64>> = Default::default();
    d.insert(k, NullableTrait::new(v));
    match match_nullable(d.get(k)) { FromNullableResult::Null => 0, FromNullableResult::NotNull(b) => b.unbox() }
}"),
    ("cover::u256_ops", "fn f(a: u128, b: u128, c: u128) -> u256 {
    let x = u256 { low: a, high: b };
    let y = u256 { low: c, high: 1 };
    let (q, r) = DivRem::div_rem(x, y.try_into().unwrap());
    q + r
}"),
    ("cover::u128_ops", "fn f(a: u128, b: u128) -> u128 {
    let (q, r) = DivRem::div_rem(a, (b | 1).try_into().unwrap());
    let s = core::num::traits::Sqrt::sqrt(a);
    core::num::traits::WrappingAdd::wrapping_add(q, r) ^ s.into()
}"),
    ("cover::felt_to_ints", "fn f(a: felt252) -> (Option<u8>, Option<u64>, Option<u128>, Option<i8>, Option<i128>) {
    (a.try_into(), a.try_into(), a.try_into(), a.try_into(), a.try_into())
}"),
    ("cover::circuit_inverse", "use core::circuit::{CircuitElement, CircuitInput, circuit_add, circuit_inverse, circuit_mul, EvalCircuitTrait, u96, CircuitOutputsTrait, CircuitModulus, AddInputResultTrait, CircuitInputs};
fn f(a: u64, b: u64) -> u128 {
    let in1 = CircuitElement::<CircuitInput<0>> {};
    let in2 = CircuitElement::<CircuitInput<1>> {};
    let sum = circuit_add(in1, in2);
    let prod = circuit_mul(sum, in2);
    let inv = circuit_inverse(prod);
    let modulus = TryInto::<_, CircuitModulus>::try_into([7, 0, 0, 0]).unwrap();
    let a96: u96 = core::internal::bounded_int::upcast(a);
    let b96: u96 = core::internal::bounded_int::upcast(b);
    match (inv,).new_inputs().next([a96, 0, 0, 0]).next([b96, 0, 0, 0]).done().eval(modulus) {
        Ok(outputs) => core::internal::bounded_int::upcast::<u96, u128>(outputs.get_output(inv).limb0),
        Err(_) => 1000,
    }
}
fn g(a: u64) -> u128 {
    let in1 = CircuitElement::<CircuitInput<0>> {};
    let inv = circuit_inverse(in1);
    let sq = circuit_mul(inv, inv);
    let modulus = TryInto::<_, CircuitModulus>::try_into([7, 0, 0, 0]).unwrap();
    let a96: u96 = core::internal::bounded_int::upcast(a);
    match (sq,).new_inputs().next([a96, 0, 0, 0]).done().eval(modulus) {
        Ok(outputs) => core::internal::bounded_int::upcast::<u96, u128>(outputs.get_output(sq).limb0),
        Err(_) => 1000,
    }
}"),
    ("cover::big_ap_branch", "#[inline(never)]
fn f0(x: felt252) -> felt252 { x + 1 }
#[inline(never)]
fn f1(x: felt252) -> felt252 { f0(f0(f0(f0(f0(f0(f0(f0(x)))))))) }
#[inline(never)]
fn f2(x: felt252) -> felt252 { f1(f1(f1(f1(f1(f1(f1(f1(x)))))))) }
#[inline(never)]
fn f3(x: felt252) -> felt252 { f2(f2(f2(f2(f2(f2(f2(f2(x)))))))) }
#[inline(never)]
fn f4(x: felt252) -> felt252 { f3(f3(f3(f3(f3(f3(f3(f3(x)))))))) }
#[inline(never)]
fn f5(x: felt252) -> felt252 { f4(f4(f4(f4(f4(f4(f4(f4(x)))))))) }
fn small(x: felt252) -> felt252 { if x == 0 { f2(x) } else { x } }
fn mid(x: felt252) -> felt252 { if x == 0 { f4(f4(x)) } else { x } }
fn big(x: felt252) -> felt252 { if x == 0 { f5(x) } else { x } }
fn three_way(x: felt252) -> felt252 { if x == 0 { f4(f4(f4(x))) } else if x == 1 { f3(x) } else { x } }"),
    ("cover::ec", "use core::ec::{EcPointTrait, EcStateTrait};
fn f(m: felt252, x: u8) -> felt252 {
    let p = match EcPointTrait::new_from_x(x.into()) { Some(p) => p, None => EcPointTrait::new_from_x(1).unwrap() };
    let mut s = EcStateTrait::init();
    s.add_mul(m, p.try_into().unwrap());
    s.add(p.try_into().unwrap());
    match s.finalize_nz() { Some(r) => r.x(), None => 0 }
}"),
    ("cover::felt_cmp", "fn f(a: felt252, b: felt252) -> bool {
    let x: u256 = a.into();
    let y: u256 = b.into();
    x < y
}"),
    ("cover::storage_address", "fn f(a: felt252) -> felt252 {
    let base = starknet::storage_access::storage_base_address_from_felt252(a);
    starknet::storage_access::storage_address_from_base_and_offset(base, 3).into()
}"),
    ("cover::array_box", "fn f(a: u32, b: u32, i: u32) -> u32 {
    let mut arr = array![a, b, a + 1];
    arr.append(7);
    let bx = BoxTrait::new((a, b));
    let (x, _y) = bx.unbox();
    *arr.at(i % 4) + x
}"),
];


/// W5: `downcast` into `BoundedInt<L, U>` from felt252 and from the integer types, for ranges that
/// sit at, next to and across the range-check bound, with inputs at every boundary of the range
/// (and the same boundaries shifted by 2**128). Returns (name, code, inputs).
pub fn range_cast_programs() -> Vec<(String, String, Vec<BigInt>)> {
    let b = |k: u32| BigInt::one() << k;
    let p = felt_prime();
    let mut out = vec![];
    let felt_ranges: Vec<(BigInt, BigInt)> = vec![
        (BigInt::zero(), BigInt::from(255)),
        (BigInt::one(), BigInt::from(255)),
        (BigInt::from(-128), BigInt::from(127)),
        (BigInt::from(-5), BigInt::from(5)),
        (BigInt::from(-100), BigInt::from(-1)),
        (b(64), b(64) + 10),
        (BigInt::one(), b(122)),
        (-b(100), b(100)),
        (b(128) - 16, b(128) - 1),
        (b(128) - b(100), b(128) - 1),
        (b(128) - 16, b(128) + 16),
        (b(128), b(128) + 100),
        (b(128) - 1, b(128)),
        (b(200), b(200) + b(64)),
        (BigInt::zero(), b(123)),
    ];
    let int_ranges: Vec<(&str, BigInt, BigInt, BigInt, BigInt)> = vec![
        ("u8", BigInt::zero(), BigInt::from(255), BigInt::from(3), BigInt::from(200)),
        ("u8", BigInt::zero(), BigInt::from(255), BigInt::from(0), BigInt::from(254)),
        ("u64", BigInt::zero(), b(64) - 1, BigInt::one(), b(64) - 2),
        ("u128", BigInt::zero(), b(128) - 1, BigInt::from(5), b(128) - 1),
        ("u128", BigInt::zero(), b(128) - 1, b(127), b(128) - 2),
        ("u128", BigInt::zero(), b(128) - 1, BigInt::zero(), b(127)),
        ("i8", BigInt::from(-128), BigInt::from(127), BigInt::from(-5), BigInt::from(5)),
        ("i8", BigInt::from(-128), BigInt::from(127), BigInt::from(-128), BigInt::from(0)),
        ("i128", -b(127), b(127) - 1, BigInt::from(-1), b(127) - 1),
        ("i128", -b(127), b(127) - 1, -b(127) + 1, b(127) - 2),
        ("i64", -b(63), b(63) - 1, BigInt::from(1), b(62)),
    ];
    let lit = |v: &BigInt| if v.sign() == num_bigint::Sign::Minus { format!("-0x{:x}", -v) } else { format!("0x{v:x}") };
    let prog = |from: &str, l: &BigInt, u: &BigInt| {
        let (ret, conv) = if l.sign() != num_bigint::Sign::Minus {
            ("Option<felt252>", "Some(v) => Some(upcast(v))")
        } else if *l >= -b(127) && *u < b(127) {
            ("Option<i128>", "Some(v) => Some(upcast(v))")
        } else {
            ("Option<bool>", "Some(_v) => Some(true)")
        };
        format!(
            "extern type BoundedInt<const MIN: felt252, const MAX: felt252>;\nextern fn downcast<T, S>(index: T) -> Option<S> implicits(RangeCheck) nopanic;\nextern fn upcast<T, S>(index: T) -> S nopanic;\ntype Target = BoundedInt<{}, {}>;\nfn f(x: {from}) -> {ret} {{\n    match downcast::<{from}, Target>(x) {{\n        {conv},\n        None => None,\n    }}\n}}\n",
            lit(l), lit(u)
        )
    };
    let boundary_inputs = |l: &BigInt, u: &BigInt, lo: &BigInt, hi: &BigInt| {
        let mut v: Vec<BigInt> = vec![];
        for base in [l.clone(), u.clone(), BigInt::zero(), b(128), lo.clone(), hi.clone()] {
            for d in [-1i32, 0, 1] {
                v.push(&base + d);
            }
        }
        for base in [l.clone(), u.clone()] {
            for shift in [b(128), -b(128), b(64)] {
                for d in [-1i32, 0, 1] {
                    v.push(&base + &shift + d);
                }
            }
        }
        v.push((l + u) / 2);
        let mut seen = std::collections::BTreeSet::new();
        v.into_iter().filter(|x| x >= lo && x <= hi).filter(|x| seen.insert(x.clone())).collect::<Vec<_>>()
    };
    for (l, u) in &felt_ranges {
        // As felts: every boundary is taken modulo the prime.
        let ins: Vec<BigInt> = boundary_inputs(l, u, &(-b(130)), &(b(251))).into_iter().map(|x| ((x % &p) + &p) % &p).collect();
        out.push((format!("rangecast::felt252::{}..{}", lit(l), lit(u)), prog("felt252", l, u), ins));
    }
    for (from, lo, hi, l, u) in &int_ranges {
        out.push((format!("rangecast::{from}::{}..{}", lit(l), lit(u)), prog(from, l, u), boundary_inputs(l, u, lo, hi)));
    }
    out
}

pub fn c03_worker(ctx: &mut Ctx) {
    install_panic_hook();
    let seed = ctx.seed;
    let thorough = ctx.tier == Tier::Thorough;
    let inputs_per_fn = ctx.tier.pick(3, 30);
    // W4: operator wrappers (dense in arithmetic hints) + W3 snippets.
    let mut sources: Vec<(String, String)> = crate::opmatrix::op_cases()
        .iter()
        .filter(|c| matches!(c.name.as_str(), "add" | "sub" | "mul" | "div" | "rem" | "div_rem" | "lt" | "le" | "sqrt" | "wide_mul" | "overflowing_add" | "overflowing_sub" | "overflowing_mul" | "inv_mod" | "pow" | "neg") || c.name.starts_with("try_into") || c.name.starts_with("bounded_"))
        .map(|c| (format!("op::{}::{}", c.ty.name, c.name), crate::opmatrix::source_of(c)))
        .collect();
    // W3 snippets; these include the W5 coverage programs and the range-cast family.
    sources.extend(snippet_cases());
    let mut explicit: HashMap<String, Vec<BigInt>> = range_cast_programs().into_iter().map(|(n, _, ins)| (n, ins)).collect();
    // Bounded-int cases: inputs around the constant (and around its negation), 0, +-1, type bounds.
    for c in crate::opmatrix::op_cases().iter().filter(|c| c.name.starts_with("bounded_")) {
        let digits = c.name.rsplit('_').next().unwrap_or("0");
        let (neg, hex) = match digits.strip_prefix("-0x") {
            Some(h) => (true, h),
            None => (false, digits.trim_start_matches("0x")),
        };
        let Some(k) = BigInt::parse_bytes(hex.as_bytes(), 16) else { continue };
        let k = if neg { -k } else { k };
        let t = c.params[0];
        let mut ins: Vec<BigInt> = vec![];
        for base in [k.clone(), -k.clone(), BigInt::zero(), t.min(), t.max(), &k * 2, t.max() / k.clone().max(BigInt::one()) * &k] {
            for d in [-2i32, -1, 0, 1, 2] {
                let v = &base + d;
                if t.contains(&v) && !ins.contains(&v) {
                    ins.push(v);
                }
            }
        }
        explicit.insert(format!("op::{}::{}", c.ty.name, c.name), ins);
    }
    ctx.count("programs", sources.len() as u64);
    let results: Vec<ShardResult> = sources
        .par_iter()
        .map(|(name, code)| {
            let mut acc = ShardResult::default();
            let r = guarded(|| {
                let mut local = ShardResult::default();
                let starknet = name.contains("libfuncs/starknet") || code.contains("starknet::");
                let Ok(program) = compile_cached(&Config::DEFAULT, starknet, "test", code) else {
                    local.inconclusive("program does not compile standalone");
                    return local;
                };
                let Ok(prog) = Prog::new(program, Some(exec::metadata_config(true, Default::default()))) else {
                    local.inconclusive("program does not build");
                    return local;
                };
                let funcs: Vec<Function> = prog.program.funcs.iter().filter(|f| f.id.to_string().starts_with("test::")).cloned().collect();
                for func in funcs {
                    let mut rng = Rng::derive(seed, &[33, fnv_str(name), fnv_str(&func.id.to_string())]);
                    let mut seen_sites = HashMap::new();
                    if let Some(inputs) = explicit.get(name) {
                        // Boundary inputs; every input gets its own fault budget per site.
                        for x in inputs {
                            let args = vec![Arg::Value(Felt252::from(x))];
                            let case_id = format!("{name} {}({x})", func.id);
                            let replay = json!({"name": name, "code": code, "function": func.id.to_string(), "seed": seed, "explicit_input": x.to_string()});
                            local.count("boundary_inputs", 1);
                            fault_runs(&mut local, &prog, &func, &args, &case_id, &replay, seed, thorough, &mut HashMap::new());
                        }
                        continue;
                    }
                    for k in 0..inputs_per_fn {
                        let Some((args, adesc)) = values::gen_args(&prog.builder, &func, &mut rng) else {
                            local.count("functions_with_unsupported_params", 1);
                            break;
                        };
                        let case_id = format!("{name} {}({adesc})", func.id);
                        let replay = json!({"name": name, "code": code, "function": func.id.to_string(), "seed": seed, "k": k, "inputs_per_fn": inputs_per_fn});
                        fault_runs(&mut local, &prog, &func, &args, &case_id, &replay, seed, thorough, &mut seen_sites);
                    }
                }
                local
            });
            match r {
                Ok(l) => acc.merge(l),
                Err((loc, msg)) => acc.inconclusive(&format!("harness panic: {}", panic_sig(&loc, &msg))),
            }
            acc
        })
        .collect();
    for r in results {
        ctx.absorb(r);
    }
    crate::execchecks::drop_thread_dbs();
    let mutated: HashSet<String> = ctx.res.sets.get("hint_kinds_mutated").cloned().unwrap_or_default().into_iter().collect();
    for k in ["AllocSegment", "TestLessThan", "TestLessThanOrEqual", "TestLessThanOrEqualAddress", "WideMul128", "DivMod", "Uint256DivMod", "Uint512DivModByUint256", "SquareRoot", "Uint256SquareRoot", "LinearSplit", "AllocFelt252Dict", "Felt252DictEntryInit", "GetSegmentArenaIndex", "InitSquashData", "GetCurrentAccessIndex", "ShouldSkipSquashLoop", "GetCurrentAccessDelta", "ShouldContinueSquashLoop", "GetNextDictKey", "AssertLeFindSmallArcs", "AssertLeIsFirstArcExcluded", "AssertLeIsSecondArcExcluded", "RandomEcPoint", "FieldSqrt", "AllocConstantSize", "U256InvModN", "EvalCircuit"] {
        if !mutated.contains(k) {
            ctx.set_add("hint_kinds_never_mutated(blind spots)", k);
        }
    }
}

pub fn c03_replay(case: &serde_json::Value) -> Result<Option<String>, String> {
    install_panic_hook();
    let name = case["name"].as_str().ok_or("no name")?;
    let code = case["code"].as_str().ok_or("no code")?;
    let seed = case["seed"].as_u64().unwrap_or(1);
    let starknet = name.contains("libfuncs/starknet") || code.contains("starknet::");
    let program = compile_cached(&Config::DEFAULT, starknet, "test", code)?;
    let prog = Prog::new(program, Some(exec::metadata_config(true, Default::default())))?;
    let fname = case["function"].as_str().ok_or("no function")?;
    let func = prog.program.funcs.iter().find(|f| f.id.to_string() == fname).ok_or("function not found")?.clone();
    let mut acc = ShardResult::default();
    let mut rng = Rng::derive(seed, &[33, fnv_str(name), fnv_str(fname)]);
    let mut seen = HashMap::new();
    if let Some(x) = case["explicit_input"].as_str() {
        let x: BigInt = x.parse().map_err(|_| "bad explicit_input")?;
        fault_runs(&mut acc, &prog, &func, &[Arg::Value(Felt252::from(&x))], &format!("{name} {fname}({x})"), case, seed, true, &mut seen);
        return Ok(acc.violations.first().map(|v| format!("{}: {}", v.sig, v.desc)));
    }
    for k in 0..case["inputs_per_fn"].as_u64().unwrap_or(3) {
        let Some((args, adesc)) = values::gen_args(&prog.builder, &func, &mut rng) else { break };
        fault_runs(&mut acc, &prog, &func, &args, &format!("{name} {fname}({adesc})"), case, seed, true, &mut seen);
        let _ = k;
    }
    Ok(acc.violations.first().map(|v| format!("{}: {}", v.sig, v.desc)))
}
