//! C05: observable behaviour is invariant under optimization / lowering configuration.

use std::collections::{BTreeMap, HashSet};

use cairo_lang_utils::verif;
use rayon::prelude::*;
use serde_json::json;

use crate::comp::Config;
use crate::exec::{self, Outcome, Prog};
use crate::execchecks::{AMPLE_GAS, compile_cached, snippet_cases};
use crate::frontend::{guarded, install_panic_hook, panic_sig};
use crate::report::{Ctx, ShardResult, Tier};
use crate::rng::{Rng, fnv_str};
use crate::values::{self, Val};

/// Libfuncs that expose the gas counter as a value.
pub const GAS_OBSERVERS: &[&str] = &["get_unspent_gas", "get_available_gas"];

/// The observable result of a run, compared by content.
#[derive(Clone, Debug, PartialEq)]
pub enum Obs {
    Value(Val),
    Panic(Vec<String>),
    OutOfGas,
    NotComparable(String),
}

pub fn observe(prog: &Prog, func: &cairo_lang_sierra::program::Function, rec: &exec::RunRecord) -> Obs {
    match &rec.outcome {
        Outcome::Success(cells) => {
            let v = values::decode_result(&prog.builder, func, cells, &rec.memory);
            if v.has_opaque() {
                Obs::NotComparable("result contains values the reader does not interpret".into())
            } else {
                Obs::Value(v)
            }
        }
        Outcome::Panic(data) => {
            // 'Out of gas' as a short string.
            let oog = starknet_types_core::felt::Felt::from_bytes_be_slice(b"Out of gas");
            if data.len() == 1 && data[0] == oog {
                Obs::OutOfGas
            } else {
                Obs::Panic(data.iter().map(|f| f.to_string()).collect())
            }
        }
        other => Obs::NotComparable(format!("{other:?}").chars().take(60).collect()),
    }
}

pub fn config_lattice(tier: Tier) -> Vec<Config> {
    Config::lattice(tier == Tier::Thorough)
}

/// Compiles `code` under every configuration and compares all functions `test::*` on generated
/// inputs against the first configuration (optimizations disabled).
pub fn compare_snippet(acc: &mut ShardResult, name: &str, code: &str, cfgs: &[Config], seed: u64, inputs_per_fn: usize) {
    let starknet = name.contains("libfuncs/starknet") || code.contains("starknet::");
    let mut progs: Vec<(Config, Prog)> = vec![];
    for cfg in cfgs {
        match compile_cached(cfg, starknet, "test", code) {
            Ok(program) => match guarded(|| Prog::new(program, Some(exec::metadata_config(cfg.linear, Default::default())))) {
                Ok(Ok(p)) => progs.push((*cfg, p)),
                Ok(Err(e)) => {
                    if progs.is_empty() {
                        acc.inconclusive("baseline configuration does not build");
                        return;
                    }
                    // Legacy solver limitations (circuits) are documented; anything else is C08's.
                    acc.inconclusive(&format!("not buildable under {}: {}", cfg.name(), e.chars().filter(|c| !c.is_ascii_digit()).take(50).collect::<String>()));
                }
                Err((loc, msg)) => acc.inconclusive(&format!("build panicked under {}: {}", cfg.name(), panic_sig(&loc, &msg))),
            },
            Err(e) => {
                if progs.is_empty() {
                    acc.inconclusive("snippet does not compile standalone");
                    return;
                }
                acc.violation(
                    &format!("compiles-under-baseline-only:{}", cfg.name()),
                    &format!("{name}: compiles with optimizations disabled but not under {}: {}", cfg.name(), e.lines().next().unwrap_or("").chars().take(200).collect::<String>()),
                    json!({"kind": "snippet", "name": name, "code": code, "cfgs": cfgs, "seed": seed}),
                );
                return;
            }
        }
    }
    if progs.len() < 2 {
        return;
    }
    // A program that reads its own gas counter observes exactly what the property allows to
    // differ between configurations.
    if progs.iter().any(|(_, p)| crate::execchecks::program_libfuncs(&p.program).iter().any(|l| GAS_OBSERVERS.contains(&l.as_str()))) {
        acc.inconclusive("program observes its gas counter (outside the property: gas may differ)");
        return;
    }
    let (base_cfg, base) = &progs[0];
    let funcs: Vec<cairo_lang_sierra::program::Function> =
        // Compiler-generated functions (loop bodies, closures: `f[123-456]`) are not part of the
        // program's interface: their parameters are whatever the configuration decided to
        // capture, so only the user's own functions are compared.
        base.program.funcs.iter().filter(|f| f.id.to_string().starts_with("test::") && !f.id.to_string().contains('[')).cloned().collect();
    for func in funcs {
        let fname = func.id.to_string();
        let mut rng = Rng::derive(seed, &[5, fnv_str(name), fnv_str(&fname)]);
        for k in 0..inputs_per_fn {
            let Some((_, adesc)) = values::gen_args(&base.builder, &func, &mut rng.clone()) else {
                acc.count("functions_with_unsupported_params", 1);
                break;
            };
            // The same RNG state produces the same arguments for every configuration.
            let arg_rng = rng.clone();
            let _ = values::gen_args(&base.builder, &func, &mut rng);
            let mut obs: Vec<(Config, Obs)> = vec![];
            for (cfg, prog) in &progs {
                let Ok(f) = prog.runner.find_function(&fname) else {
                    acc.inconclusive("function missing under a configuration");
                    continue;
                };
                let f = f.clone();
                let Some((args, _)) = values::gen_args(&prog.builder, &f, &mut arg_rng.clone()) else {
                    continue;
                };
                acc.eval();
                match guarded(|| exec::run(prog, &f, args, Some(AMPLE_GAS))) {
                    Ok(rec) => obs.push((*cfg, observe(prog, &f, &rec))),
                    Err((loc, msg)) => acc.inconclusive(&format!("runner panicked: {}", panic_sig(&loc, &msg))),
                }
            }
            let Some((_, base_obs)) = obs.first().cloned() else { continue };
            if matches!(base_obs, Obs::NotComparable(_) | Obs::OutOfGas) {
                acc.inconclusive(match base_obs {
                    Obs::OutOfGas => "baseline ran out of gas",
                    _ => "baseline result not comparable",
                });
                continue;
            }
            let mut compared = 0;
            for (cfg, o) in obs.iter().skip(1) {
                match o {
                    Obs::NotComparable(_) => acc.inconclusive("result not comparable under a configuration"),
                    Obs::OutOfGas => acc.inconclusive("out of gas under one configuration only (a resource difference)"),
                    o if *o == base_obs => compared += 1,
                    o => {
                        acc.violation(
                            &format!("result-differs:{}", cfg.name()),
                            &format!("{name} {fname}({adesc}): {:?} under {} but {:?} under {}", short(&base_obs), base_cfg.name(), short(o), cfg.name()),
                            json!({"kind": "snippet", "name": name, "code": code, "cfgs": cfgs, "seed": seed, "function": fname, "args": adesc, "k": k}),
                        );
                        return;
                    }
                }
            }
            acc.count("pairwise_comparisons_equal", compared);
            if compared > 0 {
                acc.nontrivial(fnv_str(&format!("{name}|{fname}|{adesc}")));
                acc.count(match base_obs { Obs::Panic(_) => "baseline_panics", _ => "baseline_values" }, 1);
            }
            if k == 0 && fnv_str(&format!("{name}{fname}")) % 61 == 0 {
                acc.sample(json!({"snippet": name, "function": fname, "args": adesc, "configs_compared": compared + 1, "result": format!("{:?}", short(&base_obs))}));
            }
        }
    }
}

fn short(o: &Obs) -> String {
    let s = format!("{o:?}");
    if s.len() > 200 { format!("{}...", &s[..200]) } else { s }
}

pub fn c05_worker(ctx: &mut Ctx) {
    install_panic_hook();
    verif::reset_counters();
    let _ = verif::take_events();
    let cfgs = config_lattice(ctx.tier);
    ctx.count("configurations", cfgs.len() as u64);
    for c in &cfgs {
        ctx.set_add("configurations", &c.name());
    }
    let seed = ctx.seed;
    let inputs_per_fn = ctx.tier.pick(6, 30);
    // ---- W3 snippets and W1: generated programs (every function, not only main, is compared).
    let mut cases = snippet_cases();
    let n_gen: u64 = ctx.tier.pick(150, 2500);
    for i in 0..n_gen {
        let mut rng = Rng::derive(seed, &[1, i]);
        if let Ok((program, _)) = guarded(|| crate::pgen::generate(&mut rng)) {
            cases.push((format!("generated::#{i}"), crate::pgen::render_program(&program)));
        }
    }
    ctx.count("generated_programs", n_gen);
    // The configurations are compared against the baseline in groups of three, one pass over the
    // cases per group: a thread then keeps at most a handful of databases alive (each holds a
    // fully analysed corelib).
    let groups: Vec<Vec<Config>> = cfgs[1..].chunks(3).map(|g| std::iter::once(cfgs[0]).chain(g.iter().copied()).collect()).collect();
    let work: Vec<(&Vec<Config>, &(String, String))> = groups.iter().flat_map(|g| cases.iter().map(move |c| (g, c))).collect();
    // Thorough: half the threads - every thread keeps up to four fully analysed corelibs alive, and
    // the first thorough runs were killed by the kernel for using all of the machine's memory.
    let pool = rayon::ThreadPoolBuilder::new().num_threads(ctx.tier.pick(16, 7)).stack_size(256 * 1024 * 1024).build().expect("thread pool");
    let results: Vec<ShardResult> = pool.install(|| work
        .par_iter()
        .map(|(cfgs, (name, code))| {
            let mut acc = ShardResult::default();
            if let Err((loc, msg)) = guarded(|| {
                let mut local = ShardResult::default();
                compare_snippet(&mut local, name, code, cfgs, seed, inputs_per_fn);
                local
            })
            .map(|l| acc.merge(l))
            {
                acc.inconclusive(&format!("harness panic: {}", panic_sig(&loc, &msg)));
            }
            acc
        })
        .collect());
    for r in results {
        ctx.absorb(r);
    }
    ctx.flush();
    // The pool's threads keep their cached databases alive as long as the pool exists.
    drop(pool);
    crate::execchecks::drop_thread_dbs();
    // ---- W2: every corelib test has the same verdict under every configuration.
    let w2_cfgs: Vec<Config> = match ctx.tier {
        Tier::Quick => vec![cfgs[0], cfgs[1], cfgs[2]],
        // Each configuration costs a full analysis, lowering and CASM of the corelib with its
        // tests (several GB while it lives): six of them, spread over the lattice.
        Tier::Thorough => {
            let linear: Vec<Config> = cfgs.iter().filter(|c| c.linear).cloned().collect();
            let step = (linear.len() / 6).max(1);
            linear.into_iter().step_by(step).take(6).collect()
        }
    };
    let mut verdicts: Vec<(Config, BTreeMap<String, (Option<bool>, String)>)> = vec![];
    for cfg in &w2_cfgs {
        let suite = match guarded(|| crate::w2::compile_corelib_tests(cfg)) {
            Ok(Ok(s)) => s,
            Ok(Err(e)) => {
                ctx.violation(&format!("corelib-tests-do-not-compile:{}", cfg.name()), &format!("the corelib test suite does not compile under {}: {}", cfg.name(), e.chars().take(400).collect::<String>()), json!({"kind": "corelib", "cfg": cfg}));
                continue;
            }
            Err((loc, msg)) => {
                ctx.violation(&format!("corelib-tests-panic:{}", panic_sig(&loc, &msg)), &format!("compiling the corelib tests under {} panicked at {loc}: {msg}", cfg.name()), json!({"kind": "corelib", "cfg": cfg}));
                continue;
            }
        };
        let res: Vec<(String, (Option<bool>, String))> = suite
            .tests
            .par_iter()
            .filter(|(_, t)| !t.ignored)
            .map(|(name, tcfg)| {
                let Ok(func) = suite.prog.runner.find_function(name) else {
                    return (name.clone(), (None, "not found".to_string()));
                };
                let func = func.clone();
                match guarded(|| exec::run(&suite.prog, &func, vec![], tcfg.available_gas)) {
                    Ok(rec) => {
                        let libs = exec::reachable_libfuncs(&suite.prog.program, &func);
                        if libs.iter().any(|l| GAS_OBSERVERS.contains(&l.as_str())) {
                            return (name.clone(), (None, "observes its gas counter".to_string()));
                        }
                        let v = crate::w2::test_verdict(tcfg, &rec.outcome);
                        let d = match &rec.outcome {
                            Outcome::Success(_) => "success".to_string(),
                            Outcome::Panic(p) => format!("panic {:?}", p.iter().map(|f| f.to_string()).collect::<Vec<_>>()),
                            o => format!("{o:?}").chars().take(80).collect(),
                        };
                        (name.clone(), (v, d))
                    }
                    Err((loc, msg)) => (name.clone(), (None, format!("runner panic {}", panic_sig(&loc, &msg)))),
                }
            })
            .collect();
        ctx.count("corelib_tests_run", res.len() as u64);
        verdicts.push((*cfg, res.into_iter().collect()));
    }
    if let Some((base_cfg, base)) = verdicts.first().cloned() {
        for (cfg, v) in verdicts.iter().skip(1) {
            for (name, (verdict, detail)) in v {
                ctx.eval();
                match (base.get(name), verdict) {
                    (Some((Some(b), bd)), Some(x)) => {
                        if b != x || (bd != detail && !bd.contains("Out of gas") && !detail.contains("Out of gas")) {
                            ctx.violation(
                                &format!("corelib-test-differs:{}", cfg.name()),
                                &format!("corelib test {name}: {bd} (verdict {b}) under {} but {detail} (verdict {x}) under {}", base_cfg.name(), cfg.name()),
                                json!({"kind": "corelib_test", "name": name, "cfgs": [base_cfg, cfg]}),
                            );
                        } else {
                            ctx.count("corelib_verdicts_equal", 1);
                            ctx.nontrivial(fnv_str(&format!("corelib|{name}|{}", cfg.name())));
                        }
                    }
                    _ => ctx.inconclusive("corelib test did not complete, or observes its gas counter, under a configuration"),
                }
            }
        }
    }
    // ---- H2: which phases fired, and the validator's verdict after each of them.
    for (k, v) in verif::counters() {
        if k.starts_with("lowering.phase") {
            ctx.count(&format!("hook.{k}"), v);
        }
    }
    let invalid: Vec<(&'static str, String)> = verif::take_events().into_iter().filter(|(k, _)| *k == "lowering.phase.invalid").collect();
    ctx.count("hook.invalid_ir_events(reported by C08)", invalid.len() as u64);
    let mut seen = HashSet::new();
    for (_, d) in invalid.iter().take(20) {
        if seen.insert(d.split('|').next().unwrap_or("").trim().to_string()) {
            ctx.set_add("phases_leaving_invalid_ir", d);
        }
    }
}

pub fn c05_replay(case: &serde_json::Value) -> Result<Option<String>, String> {
    install_panic_hook();
    let mut acc = ShardResult::default();
    match case["kind"].as_str().unwrap_or("") {
        "snippet" => {
            let cfgs: Vec<Config> = serde_json::from_value(case["cfgs"].clone()).map_err(|e| e.to_string())?;
            compare_snippet(&mut acc, case["name"].as_str().ok_or("no name")?, case["code"].as_str().ok_or("no code")?, &cfgs, case["seed"].as_u64().unwrap_or(1), 30);
        }
        "corelib_test" => {
            let cfgs: Vec<Config> = serde_json::from_value(case["cfgs"].clone()).map_err(|e| e.to_string())?;
            let name = case["name"].as_str().ok_or("no name")?;
            let mut outs = vec![];
            for cfg in &cfgs {
                let suite = crate::w2::compile_corelib_tests(cfg)?;
                let (_, tcfg) = suite.tests.iter().find(|(n, _)| n == name).ok_or("test not found")?;
                let func = suite.prog.runner.find_function(name).map_err(|e| e.to_string())?.clone();
                let rec = exec::run(&suite.prog, &func, vec![], tcfg.available_gas);
                outs.push((crate::w2::test_verdict(tcfg, &rec.outcome), format!("{:?}", rec.outcome)));
            }
            if outs.windows(2).any(|w| w[0].0 != w[1].0) {
                return Ok(Some(format!("verdicts differ: {outs:?}")));
            }
        }
        "corelib" => {
            let cfg: Config = serde_json::from_value(case["cfg"].clone()).map_err(|e| e.to_string())?;
            if let Err(e) = crate::w2::compile_corelib_tests(&cfg) {
                return Ok(Some(e.chars().take(300).collect()));
            }
        }
        k => return Err(format!("unknown replay kind {k}")),
    }
    Ok(acc.violations.first().map(|v| format!("{}: {}", v.sig, v.desc)))
}
