//! C02 / C04 / C17: monitors over executions of compiled programs (corelib tests W2, e2e and
//! example programs W3). All three monitors are evaluated on every run; a check reports the
//! verdicts of its own property and records the others as cross-coverage counters.

use std::cell::RefCell;
use std::collections::{BTreeSet, HashMap, HashSet};

use cairo_lang_compiler::db::RootDatabase;
use cairo_lang_sierra::program::{Function, Program};
use rayon::prelude::*;
use serde_json::json;

use crate::comp::{self, Config, Inl, Plugins};
use crate::exec::{self, ApStats, Outcome, Prog, RunRecord};
use crate::frontend::{guarded, install_panic_hook, panic_sig};
use crate::report::{Ctx, ShardResult, Tier};
use crate::rng::{Rng, fnv_str};
use crate::values;

pub fn audited_libfuncs() -> HashSet<String> {
    let text = std::fs::read_to_string(
        "/repo/crates/cairo-lang-starknet-classes/src/allowed_libfuncs_lists/audited.json",
    )
    .unwrap_or_default();
    let v: serde_json::Value = serde_json::from_str(&text).unwrap_or_default();
    v.get("allowed_libfuncs")
        .and_then(|m| m.as_object())
        .map(|m| m.keys().cloned().collect())
        .unwrap_or_default()
}

pub fn program_libfuncs(program: &Program) -> BTreeSet<String> {
    program.libfunc_declarations.iter().map(|d| d.long_id.generic_id.0.to_string()).collect()
}

/// Applies the three monitors to one run. `prop` selects whose violations are reported.
#[allow(clippy::too_many_arguments)]
pub fn monitor_run(
    acc: &mut ShardResult,
    prop: &str,
    prog: &Prog,
    func: &Function,
    rec: &RunRecord,
    case_id: &str,
    in_c02_domain: bool,
    ap: &mut ApStats,
    replay: &serde_json::Value,
) {
    // ---- C02: the run must complete; steps bounded by gas.
    match &rec.outcome {
        Outcome::VmError(e) if e.contains("RunResources has no remaining steps") => {
            // The harness's own step limit. With a gas counter whose bound is below the limit
            // this refutes bounded termination; otherwise it is only the watchdog.
            let bounded = rec.available_gas.is_some_and(|g| g / 100 + 1 < exec::STEP_LIMIT) && prog.gas_enabled;
            if bounded && in_c02_domain {
                if prop == "C02" {
                    acc.violation(
                        "steps-exceed-gas",
                        &format!("{case_id}: more than {} steps with only {:?} gas", exec::STEP_LIMIT, rec.available_gas),
                        replay.clone(),
                    );
                } else {
                    acc.count("cross.C02.violations", 1);
                }
            } else {
                acc.inconclusive("step watchdog expired on a run without a gas bound");
            }
        }
        Outcome::VmError(e) => {
            if in_c02_domain {
                let sig = format!(
                    "vm-error:{}",
                    e.split(['\n']).next().unwrap_or("").chars().filter(|c| !c.is_ascii_digit()).take(50).collect::<String>()
                );
                if prop == "C02" {
                    acc.violation(&sig, &format!("{case_id}: honest run failed in the VM: {e}"), replay.clone());
                } else {
                    acc.count("cross.C02.violations", 1);
                }
            } else {
                acc.count("vm_error_outside_c02_domain", 1);
            }
        }
        Outcome::Success(_) | Outcome::Panic(_) => {
            if let (Some(avail), true) = (rec.available_gas, rec.gas_counter.is_some()) {
                // Bounded termination: no more than gas/100 + 1 steps.
                if in_c02_domain && !rec.made_syscalls && rec.steps > avail / 100 + 1 {
                    if prop == "C02" {
                        acc.violation(
                            "steps-exceed-gas",
                            &format!("{case_id}: {} steps with only {avail} gas", rec.steps),
                            replay.clone(),
                        );
                    } else {
                        acc.count("cross.C02.violations", 1);
                    }
                }
            }
        }
        _ => {}
    }
    if rec.trace.is_empty() {
        return;
    }
    // ---- C17.
    match exec::check_ap_and_ranges(prog, rec, ap) {
        Ok(()) => {}
        Err((sig, desc)) => {
            if prop == "C17" {
                acc.violation(&sig, &format!("{case_id}: {desc}"), replay.clone());
            } else {
                acc.count("cross.C17.violations", 1);
            }
        }
    }
    match exec::check_entry_function_ap(prog, func, rec) {
        Ok(true) => ap.call_instances_checked += 1,
        Ok(false) => {}
        Err((sig, desc)) => {
            if prop == "C17" {
                acc.violation(&sig, &format!("{case_id}: {desc}"), replay.clone());
            } else {
                acc.count("cross.C17.violations", 1);
            }
        }
    }
    // ---- C04.
    if let Some(v) = exec::gas_inequality(prog, func, rec) {
        acc.count("gas_inequalities_evaluated", 1);
        acc.min("min_gas_slack", v.slack.clamp(i64::MIN as i128, i64::MAX as i128) as i64);
        if v.slack < 0 {
            if prop == "C04" {
                acc.violation(
                    &format!("undercharge:{}", func.id.to_string().chars().take(60).collect::<String>()),
                    &format!(
                        "{case_id}: actual cost {} > charged {} + 100 (steps {}, builtins {:?}, gas {:?} -> {:?})",
                        v.actual, v.charged, rec.steps, rec.builtins, rec.available_gas, rec.gas_counter
                    ),
                    replay.clone(),
                );
            } else {
                acc.count("cross.C04.violations", 1);
            }
        }
    }
}

thread_local! {
    static DBS: RefCell<HashMap<(Config, bool), (RootDatabase, usize)>> = RefCell::new(HashMap::new());
    /// Use order of the keys of `DBS`, most recent last.
    static DB_ORDER: RefCell<Vec<(Config, bool)>> = const { RefCell::new(Vec::new()) };
}

/// Databases kept alive per thread: each holds a fully analysed corelib (hundreds of MB), and there
/// are 16 threads and up to 14 configurations x 2 plugin sets.
const MAX_DBS_PER_THREAD: usize = 4;

/// Drops the cached databases of every thread of the global pool (and of the calling thread): called
/// between the phases of a worker so that a phase does not start on top of tens of GB of corelibs.
pub fn drop_thread_dbs() {
    let clear = || {
        DBS.with(|d| d.borrow_mut().clear());
        DB_ORDER.with(|o| o.borrow_mut().clear());
    };
    clear();
    rayon::broadcast(|_| clear());
}

/// Compiles a snippet on a per-thread cached database of the configuration.
pub fn compile_cached(cfg: &Config, starknet: bool, name: &str, code: &str) -> Result<Program, String> {
    DBS.with(|dbs| {
        let mut dbs = dbs.borrow_mut();
        let key = (*cfg, starknet);
        let stale = dbs.get(&key).map(|(_, n)| *n >= 120).unwrap_or(false);
        if stale {
            dbs.remove(&key);
        }
        DB_ORDER.with(|o| {
            let mut o = o.borrow_mut();
            o.retain(|k| *k != key);
            o.push(key);
            while o.len() > MAX_DBS_PER_THREAD {
                let old = o.remove(0);
                dbs.remove(&old);
            }
        });
        let entry = dbs.entry(key).or_insert_with(|| {
            (comp::build_db(cfg, if starknet { Plugins::Starknet } else { Plugins::Default }), 0)
        });
        entry.1 += 1;
        let c = comp::virtual_crate(name, code, &comp::default_settings(), None);
        let r = guarded(|| comp::sierra(&entry.0, &[c]));
        match r {
            Ok(r) => r,
            Err((loc, msg)) => {
                dbs.remove(&key);
                Err(format!("PANIC {loc}: {msg}"))
            }
        }
    })
}

/// Ample, but small enough that gas/100 + 1 stays below the VM step limit of the harness: a run
/// that exhausts the step limit has then provably exceeded its gas bound.
pub const AMPLE_GAS: usize = 300_000_000;

pub fn gas_budgets(prog: &Prog, func: &Function, rng: &mut Rng) -> Vec<Option<usize>> {
    if !prog.gas_enabled {
        return vec![None];
    }
    let entry = prog.runner.initial_required_gas(func).unwrap_or(0);
    vec![
        Some(AMPLE_GAS),
        Some(entry),
        Some(entry + 100 * (1 + rng.below(30))),
        Some(entry + rng.below(100_000)),
    ]
}

/// Runs the functions of one compiled program on generated inputs.
#[allow(clippy::too_many_arguments)]
pub fn run_program_cases(
    acc: &mut ShardResult,
    prop: &str,
    seed: u64,
    case_name: &str,
    code: &str,
    cfg: &Config,
    program: Program,
    audited: &HashSet<String>,
    inputs_per_fn: usize,
    libfuncs_seen: &mut HashSet<String>,
    sweep: bool,
) {
    let libs = program_libfuncs(&program);
    let non_audited: Vec<&String> = libs.iter().filter(|l| !audited.contains(*l)).collect();
    let in_c02_domain = non_audited.is_empty();
    if !in_c02_domain {
        acc.count("programs_with_non_audited_libfuncs", 1);
    }
    let meta = exec::metadata_config(cfg.linear, Default::default());
    let prog = match guarded(|| Prog::new(program, Some(meta))) {
        Ok(Ok(p)) => p,
        Ok(Err(e)) => {
            acc.inconclusive(&format!(
                "program not accepted by metadata/compile: {}",
                e.chars().filter(|c| !c.is_ascii_digit()).take(60).collect::<String>()
            ));
            return;
        }
        Err((loc, msg)) => {
            acc.inconclusive(&format!("panic while building runner: {}", panic_sig(&loc, &msg)));
            return;
        }
    };
    let funcs: Vec<Function> = prog.program.funcs.clone();
    let mut ap = ApStats::default();
    for func in funcs.iter() {
        let fname = func.id.to_string();
        // Only user-level functions of the snippet (not corelib helpers pulled in).
        if !fname.starts_with(&format!("{}::", case_crate(case_name))) && !fname.starts_with("test::") {
            continue;
        }
        let mut rng = Rng::derive(seed, &[fnv_str(case_name), fnv_str(&fname), fnv_str(&cfg.name())]);
        // Boundary sweep: every boundary value of each of the first three scalar leaves, the
        // other leaves as usual.
        let mut forced: Vec<(usize, num_bigint::BigInt)> = vec![];
        if sweep {
            for (pos, (lo, hi)) in values::scalar_leaf_ranges(&prog.builder, func).iter().enumerate().take(3) {
                forced.extend(values::boundary_candidates(lo, hi).into_iter().map(|c| (pos, c)));
            }
            acc.count("boundary_sweep_inputs", forced.len() as u64);
        }
        for k in 0..inputs_per_fn + forced.len() {
            let generated = match k.checked_sub(inputs_per_fn) {
                None => values::gen_args(&prog.builder, func, &mut rng),
                Some(j) => values::gen_args_forced(&prog.builder, func, &mut rng, forced[j].0, &forced[j].1),
            };
            let Some((args, adesc)) = generated else {
                acc.count("functions_with_unsupported_params", 1);
                break;
            };
            let budgets = gas_budgets(&prog, func, &mut rng);
            let gas = budgets[k % budgets.len()];
            let case_id = format!("{case_name} {fname}({adesc}) gas={gas:?} cfg={}", cfg.name());
            let replay = json!({"kind": "snippet", "name": case_name, "code": code, "cfg": cfg,
                "function": fname, "args": adesc, "gas": gas, "seed": seed, "k": k, "inputs_per_fn": inputs_per_fn});
            acc.eval();
            let rec = match guarded(|| exec::run(&prog, func, args, gas)) {
                Ok(r) => r,
                Err((loc, msg)) => {
                    acc.inconclusive(&format!("panic in runner: {}", panic_sig(&loc, &msg)));
                    continue;
                }
            };
            match &rec.outcome {
                Outcome::NotEnoughGas => {
                    acc.count("not_enough_gas_to_call", 1);
                    continue;
                }
                Outcome::Setup(e) => {
                    acc.inconclusive(&format!("setup: {}", e.chars().take(40).collect::<String>()));
                    continue;
                }
                Outcome::Success(_) => acc.count("runs.success", 1),
                Outcome::Panic(_) => acc.count("runs.panic", 1),
                Outcome::VmError(_) => acc.count("runs.vm_error", 1),
            }
            acc.count("trace_steps", rec.trace.len() as u64);
            exec::executed_libfuncs(&prog, &rec, libfuncs_seen);
            monitor_run(acc, prop, &prog, func, &rec, &case_id, in_c02_domain, &mut ap, &replay);
            // Non-trivial: distinct (function, argument description, gas class) with a real trace.
            if rec.trace.len() >= 3 {
                acc.nontrivial(fnv_str(&format!("{case_name}|{fname}|{adesc}|{}|{}", k % 4, cfg.name())));
            }
            if k == 0 && fnv_str(&case_id) % 97 == 0 {
                acc.sample(json!({"case": case_id, "steps": rec.steps, "outcome": format!("{:?}", rec.outcome).chars().take(120).collect::<String>(),
                    "builtins": rec.builtins, "gas_left": rec.gas_counter.map(|g| g.to_string())}));
            }
        }
    }
    acc.count("call_instances_checked", ap.call_instances_checked);
    acc.count("call_instances_without_declared_ap_change", ap.call_instances_unknown);
    acc.count("const_segment_ret_hits", ap.const_ret_hits);
}

/// Cases whose scalar inputs are swept over the boundary set (the W5 programs).
pub fn is_sweep_case(name: &str) -> bool {
    name.starts_with("cover::") || name.starts_with("rangecast::")
}

fn case_crate(_case_name: &str) -> &'static str {
    "test"
}

/// Snippet workload W3: every e2e `cairo_code` plus examples/ and bug samples that compile alone.
pub fn snippet_cases() -> Vec<(String, String)> {
    let mut out = vec![];
    // W5: small programs written for hint / boundary coverage; their scalar inputs are swept.
    out.extend(crate::hintfault::HINT_COVERAGE_PROGRAMS.iter().map(|(n, c)| (n.to_string(), c.to_string())));
    out.extend(crate::hintfault::range_cast_programs().into_iter().map(|(n, c, _)| (n, c)));
    // Bounded-int division by constants (the libfunc picks its algorithm by the divisor's size).
    out.extend(
        crate::opmatrix::op_cases()
            .iter()
            .filter(|c| c.name.starts_with("bounded_div_const_"))
            .map(|c| (format!("cover::op::{}::{}", c.ty.name, c.name), crate::opmatrix::source_of(c))),
    );
    for tc in crate::corpus::e2e_cases() {
        if let Some(code) = tc.sections.get("cairo_code") {
            out.push((format!("{}::{}", crate::corpus::rel(&tc.file), tc.name), code.clone()));
        }
    }
    for (p, s) in crate::corpus::cairo_files() {
        let r = crate::corpus::rel(&p);
        if r.starts_with("examples/") && !r.ends_with("lib.cairo") {
            out.push((r, s));
        }
    }
    out
}

pub fn exec_worker(ctx: &mut Ctx, prop: &str) {
    install_panic_hook();
    let audited = audited_libfuncs();
    let seed = ctx.seed;
    let tier = ctx.tier;
    // ---------------- W3: snippets under several configurations.
    let cases = snippet_cases();
    let cfgs: Vec<Config> = match tier {
        Tier::Quick => vec![
            Config::DEFAULT,
            Config { opt: Some((Inl::Default, true)), ..Config::DEFAULT },
            Config { linear: false, ..Config::DEFAULT },
        ],
        Tier::Thorough => vec![
            Config::DEFAULT,
            Config { opt: Some((Inl::Default, true)), ..Config::DEFAULT },
            Config { linear: false, ..Config::DEFAULT },
            Config::DISABLED,
            Config { opt: Some((Inl::Avoid, false)), ..Config::DEFAULT },
            Config { linear: false, opt: Some((Inl::Default, true)), ..Config::DEFAULT },
            Config { auto_gas: false, ..Config::DEFAULT },
        ],
    };
    let inputs_per_fn = tier.pick(8, 40);
    ctx.count("snippet_cases", cases.len() as u64);
    // Configuration-major order: a thread's contiguous share of the work then stays within one
    // or two configurations, i.e. one or two live databases.
    let work: Vec<(usize, &(String, String), &Config)> =
        cfgs.iter().flat_map(|cfg| cases.iter().enumerate().map(move |(i, c)| (i, c, cfg))).collect();
    let results: Vec<(ShardResult, HashSet<String>)> = work
        .par_iter()
        .map(|(i, (name, code), cfg)| {
            let mut acc = ShardResult::default();
            let mut libs = HashSet::new();
            let starknet = name.contains("libfuncs/starknet") || code.contains("starknet::");
            match compile_cached(cfg, starknet, &format!("test"), code) {
                Ok(program) => {
                    acc.count("snippets_compiled", 1);
                    let _ = i;
                    run_program_cases(
                        &mut acc, prop, seed, name, code, cfg, program, &audited, inputs_per_fn, &mut libs, is_sweep_case(name),
                    );
                }
                Err(e) => {
                    acc.inconclusive(&format!(
                        "snippet does not compile standalone: {}",
                        e.lines().next().unwrap_or("").chars().take(50).collect::<String>()
                    ));
                }
            }
            (acc, libs)
        })
        .collect();
    let mut libs_seen: HashSet<String> = HashSet::new();
    for (r, l) in results {
        ctx.absorb(r);
        libs_seen.extend(l);
    }
    ctx.flush();

    drop_thread_dbs();
    // ---------------- W1: generated programs (the same generator as C01).
    let n_gen: u64 = tier.pick(120, 2000);
    let gen_ids: Vec<u64> = (0..n_gen).collect();
    let results: Vec<(ShardResult, HashSet<String>)> = gen_ids
        .par_iter()
        .map(|i| {
            let mut acc = ShardResult::default();
            let mut libs = HashSet::new();
            let r = guarded(|| {
                let mut local = ShardResult::default();
                let mut llibs = HashSet::new();
                let mut rng = Rng::derive(seed, &[1, *i]);
                let (program, _) = crate::pgen::generate(&mut rng);
                let src = crate::pgen::render_program(&program);
                let cfg = if i % 3 == 2 { Config { linear: false, ..Config::DEFAULT } } else { Config::DEFAULT };
                let Ok(sierra) = compile_cached(&cfg, false, "test", &src) else {
                    local.inconclusive("generated program rejected by the front end");
                    return (local, llibs);
                };
                let in_domain = program_libfuncs(&sierra).iter().all(|l| audited.contains(l));
                let Ok(prog) = Prog::new(sierra, Some(exec::metadata_config(cfg.linear, Default::default()))) else {
                    local.inconclusive("generated program does not build under this solver");
                    return (local, llibs);
                };
                let Ok(func) = prog.runner.find_function("::main") else { return (local, llibs) };
                let func = func.clone();
                let mut ap = ApStats::default();
                for k in 0..6u64 {
                    let mut arng = Rng::derive(seed, &[101, *i, k]);
                    let args = crate::pgen::main_args(&program, &mut arng);
                    let budgets = gas_budgets(&prog, &func, &mut arng);
                    let gas = budgets[(k as usize) % budgets.len()];
                    let case_id = format!("generated program #{i} main(#{k}) gas={gas:?} cfg={}", cfg.name());
                    let replay = json!({"kind": "generated", "idx": i, "seed": seed, "k": k, "cfg": cfg, "source": src});
                    local.eval();
                    let rec = exec::run(&prog, &func, crate::pgen::args_to_runner(&program, &args), gas);
                    if matches!(rec.outcome, Outcome::NotEnoughGas | Outcome::Setup(_)) {
                        continue;
                    }
                    exec::executed_libfuncs(&prog, &rec, &mut llibs);
                    monitor_run(&mut local, prop, &prog, &func, &rec, &case_id, in_domain, &mut ap, &replay);
                    if rec.trace.len() >= 3 {
                        local.nontrivial(fnv_str(&case_id));
                    }
                }
                local.count("generated_programs_run", 1);
                local.count("call_instances_checked", ap.call_instances_checked);
                (local, llibs)
            });
            match r {
                Ok((l, ll)) => {
                    acc.merge(l);
                    libs = ll;
                }
                Err((loc, msg)) => acc.inconclusive(&format!("harness panic: {}", panic_sig(&loc, &msg))),
            }
            (acc, libs)
        })
        .collect();
    for (r, l) in results {
        ctx.absorb(r);
        libs_seen.extend(l);
    }
    ctx.flush();

    drop_thread_dbs();
    // ---------------- W2: corelib tests.
    let w2_cfgs: Vec<Config> = match tier {
        Tier::Quick => vec![Config::DEFAULT],
        Tier::Thorough => vec![
            Config::DEFAULT,
            Config::DISABLED,
            Config { opt: Some((Inl::Avoid, false)), ..Config::DEFAULT },
            Config { opt: Some((Inl::Small(5000), false)), ..Config::DEFAULT },
        ],
    };
    for cfg in &w2_cfgs {
        let suite = match guarded(|| crate::w2::compile_corelib_tests(cfg)) {
            Ok(Ok(s)) => s,
            Ok(Err(e)) => {
                ctx.harness_error(format!("corelib tests did not compile under {}: {}", cfg.name(), e.chars().take(300).collect::<String>()));
                continue;
            }
            Err((loc, msg)) => {
                ctx.harness_error(format!("panic compiling corelib tests under {}: {loc}: {msg}", cfg.name()));
                continue;
            }
        };
        ctx.count("corelib_sierra_statements", suite.sierra_statements as u64);
        let libs = program_libfuncs(&suite.prog.program);
        let results: Vec<(ShardResult, HashSet<String>)> = suite
            .tests
            .par_iter()
            .map(|(name, tcfg)| {
                let mut acc = ShardResult::default();
                let mut libs = HashSet::new();
                if tcfg.ignored {
                    acc.count("corelib_tests_ignored", 1);
                    return (acc, libs);
                }
                let Ok(func) = suite.prog.runner.find_function(name) else {
                    acc.inconclusive("test function not found");
                    return (acc, libs);
                };
                let func = func.clone();
                let case_id = format!("corelib test {name} cfg={}", cfg.name());
                let replay = json!({"kind": "corelib_test", "name": name, "cfg": cfg});
                acc.eval();
                let rec = match guarded(|| exec::run(&suite.prog, &func, vec![], tcfg.available_gas)) {
                    Ok(r) => r,
                    Err((loc, msg)) => {
                        acc.inconclusive(&format!("panic in runner: {}", panic_sig(&loc, &msg)));
                        return (acc, libs);
                    }
                };
                match &rec.outcome {
                    Outcome::Success(_) => acc.count("runs.success", 1),
                    Outcome::Panic(_) => acc.count("runs.panic", 1),
                    Outcome::VmError(_) => acc.count("runs.vm_error", 1),
                    _ => acc.count("runs.not_run", 1),
                }
                match crate::w2::test_verdict(tcfg, &rec.outcome) {
                    Some(true) => acc.count("corelib_tests_pass", 1),
                    Some(false) => acc.count("corelib_tests_fail", 1),
                    None => {}
                }
                acc.count("trace_steps", rec.trace.len() as u64);
                exec::executed_libfuncs(&suite.prog, &rec, &mut libs);
                let mut ap = ApStats::default();
                // Corelib tests use cheatcodes and testing-only libfuncs: C02's domain is
                // decided per test by the libfuncs actually executed.
                let in_domain = libs.iter().all(|l| audited.contains(l));
                monitor_run(&mut acc, prop, &suite.prog, &func, &rec, &case_id, in_domain, &mut ap, &replay);
                acc.count("call_instances_checked", ap.call_instances_checked);
                acc.count("call_instances_without_declared_ap_change", ap.call_instances_unknown);
                acc.count("const_segment_ret_hits", ap.const_ret_hits);
                if rec.trace.len() >= 3 {
                    acc.nontrivial(fnv_str(&case_id));
                }
                if fnv_str(&case_id) % 211 == 0 {
                    acc.sample(json!({"case": case_id, "steps": rec.steps, "builtins": rec.builtins,
                        "gas": tcfg.available_gas, "gas_left": rec.gas_counter.map(|g| g.to_string())}));
                }
                (acc, libs)
            })
            .collect();
        for (r, l) in results {
            ctx.absorb(r);
            libs_seen.extend(l);
        }
        let _ = libs;
        ctx.flush();
    }
    for l in &libs_seen {
        ctx.set_add("libfuncs_executed", l);
    }
    for l in audited.iter().filter(|l| !libs_seen.contains(*l)) {
        ctx.set_add("audited_libfuncs_not_executed(blind spots)", l);
    }
}

pub fn exec_replay(prop: &str, case: &serde_json::Value) -> Result<Option<String>, String> {
    install_panic_hook();
    let audited = audited_libfuncs();
    let kind = case.get("kind").and_then(|k| k.as_str()).unwrap_or("");
    let cfg: Config = serde_json::from_value(case.get("cfg").cloned().ok_or("no cfg")?).map_err(|e| e.to_string())?;
    let mut acc = ShardResult::default();
    match kind {
        "snippet" => {
            let name = case["name"].as_str().ok_or("no name")?;
            let code = case["code"].as_str().ok_or("no code")?;
            let seed = case["seed"].as_u64().unwrap_or(1);
            let starknet = name.contains("libfuncs/starknet") || code.contains("starknet::");
            let program = compile_cached(&cfg, starknet, "test", code)?;
            let mut libs = HashSet::new();
            let inputs = case["inputs_per_fn"].as_u64().unwrap_or(40) as usize;
            run_program_cases(&mut acc, prop, seed, name, code, &cfg, program, &audited, inputs, &mut libs, is_sweep_case(name));
        }
        "corelib_test" => {
            let name = case["name"].as_str().ok_or("no name")?;
            let suite = crate::w2::compile_corelib_tests(&cfg)?;
            let (_, tcfg) = suite.tests.iter().find(|(n, _)| n == name).ok_or("test not found")?;
            let func = suite.prog.runner.find_function(name).map_err(|e| e.to_string())?.clone();
            let rec = exec::run(&suite.prog, &func, vec![], tcfg.available_gas);
            let mut libs = HashSet::new();
            exec::executed_libfuncs(&suite.prog, &rec, &mut libs);
            let in_domain = libs.iter().all(|l| audited.contains(l));
            let mut ap = ApStats::default();
            monitor_run(&mut acc, prop, &suite.prog, &func, &rec, name, in_domain, &mut ap, case);
        }
        "generated" => {
            let src = case["source"].as_str().ok_or("no source")?;
            let idx = case["idx"].as_u64().ok_or("no idx")?;
            let seed = case["seed"].as_u64().unwrap_or(1);
            let mut rng = Rng::derive(seed, &[1, idx]);
            let (program, _) = crate::pgen::generate(&mut rng);
            let sierra = compile_cached(&cfg, false, "test", src)?;
            let in_domain = program_libfuncs(&sierra).iter().all(|l| audited.contains(l));
            let prog = Prog::new(sierra, Some(exec::metadata_config(cfg.linear, Default::default())))?;
            let func = prog.runner.find_function("::main").map_err(|e| e.to_string())?.clone();
            let mut ap = ApStats::default();
            for k in 0..6u64 {
                let mut arng = Rng::derive(seed, &[101, idx, k]);
                let args = crate::pgen::main_args(&program, &mut arng);
                let budgets = gas_budgets(&prog, &func, &mut arng);
                let gas = budgets[(k as usize) % budgets.len()];
                let rec = exec::run(&prog, &func, crate::pgen::args_to_runner(&program, &args), gas);
                monitor_run(&mut acc, prop, &prog, &func, &rec, "generated", in_domain, &mut ap, case);
            }
        }
        _ => return Err(format!("unknown replay kind {kind}")),
    }
    Ok(acc.violations.first().map(|v| format!("{}: {}", v.sig, v.desc)))
}
