//! Front-end workloads and monitors: text mutators (W5), the lossless tree walk (C10) and the
//! totality monitor (C09).

use std::collections::HashMap;
use std::panic::{AssertUnwindSafe, catch_unwind};

use cairo_lang_diagnostics::DiagnosticEntry;
use cairo_lang_filesystem::db::FilesGroup;
use cairo_lang_filesystem::ids::{CrateInput, SpanInFile};
use cairo_lang_parser::utils::SimpleParserDatabase;
use cairo_lang_syntax::node::SyntaxNode;
use cairo_lang_syntax::node::kind::SyntaxKind;
use salsa::Database;
use serde_json::json;

use crate::report::{Ctx, Tier};
use crate::rng::{Rng, fnv_str};

// ---------------------------------------------------------------------------------------------
// Panic capture.

thread_local! {
    static LAST_PANIC: std::cell::RefCell<Option<(String, String)>> = const { std::cell::RefCell::new(None) };
}

/// Installs a panic hook that records (location, message) per thread and stays quiet.
pub fn install_panic_hook() {
    std::panic::set_hook(Box::new(|info| {
        let loc = info
            .location()
            .map(|l| format!("{}:{}", l.file(), l.line()))
            .unwrap_or_else(|| "?".into());
        let msg = if let Some(s) = info.payload().downcast_ref::<&str>() {
            s.to_string()
        } else if let Some(s) = info.payload().downcast_ref::<String>() {
            s.clone()
        } else {
            "<non-string panic>".to_string()
        };
        if std::env::var("VERIF_BACKTRACE").is_ok() {
            eprintln!("panic at {loc}: {msg}\n{}", std::backtrace::Backtrace::force_capture());
        }
        LAST_PANIC.with(|p| *p.borrow_mut() = Some((loc, msg)));
    }));
}

/// Runs `f`, converting a panic into `Err((location, message))`.
pub fn guarded<T>(f: impl FnOnce() -> T) -> Result<T, (String, String)> {
    LAST_PANIC.with(|p| *p.borrow_mut() = None);
    match catch_unwind(AssertUnwindSafe(f)) {
        Ok(v) => Ok(v),
        Err(_) => Err(LAST_PANIC
            .with(|p| p.borrow_mut().take())
            .unwrap_or(("?".into(), "<unknown panic>".into()))),
    }
}

/// Signature of a panic: crate-relative file + first 60 chars of the message, digits removed
/// (line numbers and indices vary with the input).
pub fn panic_sig(loc: &str, msg: &str) -> String {
    let file = loc.rsplit_once(':').map(|x| x.0).unwrap_or(loc);
    let file = file
        .strip_prefix("/repo/crates/")
        .or_else(|| file.strip_prefix("/repo/"))
        .unwrap_or(file);
    let file = if let Some(i) = file.find("/registry/src/") {
        file[i + 14..].split_once('/').map(|x| x.1).unwrap_or(file)
    } else {
        file
    };
    let m: String = msg.chars().filter(|c| !c.is_ascii_digit()).take(60).collect();
    format!("panic:{file}:{m}")
}

// ---------------------------------------------------------------------------------------------
// Text mutators.

pub struct TextCorpus {
    pub files: Vec<(String, String)>,
    token_cache: HashMap<usize, Vec<(usize, usize)>>,
}

const INSERT_CHARS: &[&str] = &[
    "{", "}", "(", ")", "[", "]", "<", ">", "\"", "'", "#", "@", "!", "$", "\\", "/", "//", "/*",
    ";", ":", "::", ",", ".", "..", "..=", "->", "=>", "=", "==", "&", "&&", "|", "||", "^", "~",
    "-", "+", "*", "%", "?", "_", "0", "0x", "1_u8", "'a", "é", "ü", "→", "𝔘", "\u{feff}", "\u{0}",
    "\t", "\n", "\r\n", " ", "r#", "b\"", "#[", "#![", "pub", "pub(", "mut", "ref", "fn", "let",
    "mod", "use", "impl", "trait", "struct", "enum", "const", "match", "if", "else", "loop", "while",
    "for", "in", "of", "return", "break", "continue", "extern", "type", "nopanic", "implicits",
    "macro", "super", "crate", "self", "Self", "as", "true", "false", "$defsite", "$callsite", "<<",
    ">>", "+=", "-=", "*=", "/=", "%=", "!=", "<=", ">=", "#[cfg(", "#[derive(", "array![", "@@",
];

const SOUP_TOKENS: &[&str] = &[
    "fn", "f", "(", ")", "{", "}", "[", "]", "<", ">", "let", "x", "y", "=", ";", ":", "::", ",",
    "u8", "felt252", "1", "0x1f", "'abc'", "\"str\"", "+", "-", "*", "/", "%", "==", "!=", "<=",
    ">=", "&&", "||", "!", "~", "@", "*", "&", "|", "^", "->", "=>", "match", "if", "else", "loop",
    "while", "for", "in", "break", "continue", "return", "struct", "S", "enum", "E", "impl", "trait",
    "T", "of", "mod", "m", "use", "pub", "mut", "ref", "const", "type", "extern", "nopanic",
    "implicits", "#[", "#![", "derive", "Drop", "Copy", "inline", "?", ".", "..", "..=", "_", "self",
    "Self", "super", "crate", "true", "false", "as", "macro", "$", "$x", "array!", "println!",
    "+=", "-=", "\n", "// c\n", "/// d\n", "//! i\n", "'", "\"", "\\", "#", "é",
];

fn floor_char(s: &str, mut i: usize) -> usize {
    i = i.min(s.len());
    while !s.is_char_boundary(i) {
        i -= 1;
    }
    i
}

impl TextCorpus {
    pub fn load() -> TextCorpus {
        let files = crate::corpus::cairo_files()
            .into_iter()
            .map(|(p, s)| (crate::corpus::rel(&p), s))
            .filter(|(_, s)| s.len() < 200_000)
            .collect();
        TextCorpus { files, token_cache: HashMap::new() }
    }

    /// Token spans (without trivia) of file `i`, computed with the repo's own parser.
    pub fn tokens(&mut self, i: usize) -> &Vec<(usize, usize)> {
        if !self.token_cache.contains_key(&i) {
            let text = self.files[i].1.clone();
            let spans = guarded(|| token_spans(&text)).unwrap_or_default();
            self.token_cache.insert(i, spans);
        }
        &self.token_cache[&i]
    }

    /// Produces one mutant: (base file index, mutation kind, text).
    pub fn mutant(&mut self, rng: &mut Rng) -> (usize, &'static str, String) {
        let n = self.files.len();
        let bi = rng.below(n);
        // Prefer small and medium files: keep cost per case bounded.
        let bi = if self.files[bi].1.len() > 30_000 && rng.chance(3, 4) { rng.below(n) } else { bi };
        let base = self.files[bi].1.clone();
        let kind = rng.below(19);
        let (name, text): (&'static str, String) = match kind {
            17 | 18 => {
                // Re-roll the kinds of whitespace: runs of spaces / tabs / carriage returns /
                // line feeds of mixed content, often of the same width as a neighbouring run.
                let toks = self.tokens(bi).clone();
                let mut out = String::with_capacity(base.len() + 16);
                let mut prev = 0usize;
                let dense = rng.bool();
                for (a, b) in toks {
                    if a < prev || b < a || b > base.len() || !base.is_char_boundary(a) || !base.is_char_boundary(b) {
                        continue;
                    }
                    let gap = &base[prev..a];
                    if !gap.is_empty() && gap.chars().all(|c| c.is_whitespace()) && (dense || rng.chance(1, 6)) {
                        let width = match rng.below(4) {
                            0 => gap.len(),
                            1 => 1,
                            2 => 4,
                            _ => 1 + rng.below(6),
                        };
                        // A line comment before the gap needs its newline.
                        let keep_newline = gap.contains('\n');
                        for i in 0..width {
                            out.push(match rng.below(8) {
                                0..=2 => ' ',
                                3..=5 => '\t',
                                6 => '\r',
                                _ => if i == 0 { ' ' } else { '\n' },
                            });
                        }
                        if keep_newline {
                            out.push('\n');
                        }
                    } else {
                        out.push_str(gap);
                    }
                    out.push_str(&base[a..b]);
                    prev = b;
                }
                out.push_str(&base[prev..]);
                ("whitespace-reroll", out)
            }
            0 => {
                // Delete a char range.
                let a = floor_char(&base, rng.below(base.len() + 1));
                let b = floor_char(&base, (a + 1 + rng.below(8)).min(base.len()));
                ("byte-delete", format!("{}{}", &base[..a], &base[b.max(a)..]))
            }
            1 => {
                let a = floor_char(&base, rng.below(base.len() + 1));
                let ins = *rng.pick(INSERT_CHARS);
                ("byte-insert", format!("{}{}{}", &base[..a], ins, &base[a..]))
            }
            2 => {
                // Transpose two adjacent chars.
                let mut chars: Vec<char> = base.chars().collect();
                if chars.len() >= 2 {
                    let i = rng.below(chars.len() - 1);
                    chars.swap(i, i + 1);
                }
                ("byte-transpose", chars.into_iter().collect())
            }
            3 => {
                let a = floor_char(&base, rng.below(base.len() + 1));
                ("truncate", base[..a].to_string())
            }
            4 => {
                // Truncate at a token end and append an opener.
                let toks = self.tokens(bi).clone();
                if toks.is_empty() {
                    ("truncate", String::new())
                } else {
                    let t = toks[rng.below(toks.len())];
                    let ins = *rng.pick(INSERT_CHARS);
                    ("truncate-token", format!("{}{}", &base[..t.1], ins))
                }
            }
            5 | 6 => {
                let toks = self.tokens(bi).clone();
                if toks.len() < 2 {
                    ("token-delete", base)
                } else {
                    let t = toks[rng.below(toks.len())];
                    if kind == 5 {
                        ("token-delete", format!("{}{}", &base[..t.0], &base[t.1..]))
                    } else {
                        (
                            "token-duplicate",
                            format!("{}{} {}", &base[..t.1], "", &base[t.0..]),
                        )
                    }
                }
            }
            7 => {
                let toks = self.tokens(bi).clone();
                if toks.len() < 3 {
                    ("token-swap", base)
                } else {
                    let i = rng.below(toks.len() - 1);
                    let j = (i + 1 + rng.below(3)).min(toks.len() - 1);
                    let (a, b) = (toks[i], toks[j]);
                    if a.1 <= b.0 {
                        (
                            "token-swap",
                            format!(
                                "{}{}{}{}{}",
                                &base[..a.0],
                                &base[b.0..b.1],
                                &base[a.1..b.0],
                                &base[a.0..a.1],
                                &base[b.1..]
                            ),
                        )
                    } else {
                        ("token-swap", base)
                    }
                }
            }
            8 => {
                // Replace a token by a token of another file or an insert string.
                let toks = self.tokens(bi).clone();
                if toks.is_empty() {
                    ("token-replace", base)
                } else {
                    let t = toks[rng.below(toks.len())];
                    let rep = if rng.bool() {
                        rng.pick(INSERT_CHARS).to_string()
                    } else {
                        let oi = rng.below(n);
                        let otoks = self.tokens(oi).clone();
                        if otoks.is_empty() {
                            "x".to_string()
                        } else {
                            let o = otoks[rng.below(otoks.len())];
                            self.files[oi].1[o.0..o.1].to_string()
                        }
                    };
                    ("token-replace", format!("{}{}{}", &base[..t.0], rep, &base[t.1..]))
                }
            }
            9 => {
                // Insert a string at a token boundary (visibility / attribute tokens not followed
                // by an item, stray symbols before `}` and EOF).
                let toks = self.tokens(bi).clone();
                let at = if toks.is_empty() { 0 } else { toks[rng.below(toks.len())].0 };
                let ins = *rng.pick(INSERT_CHARS);
                ("token-insert", format!("{}{} {}", &base[..at], ins, &base[at..]))
            }
            10 => {
                // Splice a token range of another file over a token range of this one.
                let toks = self.tokens(bi).clone();
                let oi = rng.below(n);
                let otoks = self.tokens(oi).clone();
                if toks.len() < 4 || otoks.len() < 4 {
                    ("splice", base)
                } else {
                    let i = rng.below(toks.len());
                    let j = (i + rng.below(12)).min(toks.len() - 1);
                    let oi0 = rng.below(otoks.len());
                    let oj = (oi0 + rng.below(40)).min(otoks.len() - 1);
                    let other = &self.files[oi].1;
                    (
                        "splice",
                        format!(
                            "{}{}{}",
                            &base[..toks[i].0],
                            &other[otoks[oi0].0..otoks[oj].1],
                            &base[toks[j].1..]
                        ),
                    )
                }
            }
            11 => {
                // Nest a construct k <= 200 times around a token.
                let toks = self.tokens(bi).clone();
                if toks.is_empty() {
                    ("nest", base)
                } else {
                    let t = toks[rng.below(toks.len())];
                    let k = *rng.pick(&[1usize, 2, 5, 20, 50, 100, 150, 200]);
                    let (open, close) = *rng.pick(&[
                        ("(", ")"),
                        ("{", "}"),
                        ("[", "]"),
                        ("-", ""),
                        ("!", ""),
                        ("@", ""),
                        ("*", ""),
                        ("~", ""),
                        ("if true {", "}"),
                        ("loop {", "}"),
                        ("mod m {", "}"),
                        ("Option::<", ">"),
                        ("(", ",)"),
                        ("array![", "]"),
                        ("#[a(", ")]"),
                        ("1 + ", ""),
                        ("a.", ""),
                        ("match x { _ => ", "}"),
                        ("|| ", ""),
                    ]);
                    (
                        "nest",
                        format!(
                            "{}{}{}{}{}",
                            &base[..t.0],
                            open.repeat(k),
                            &base[t.0..t.1],
                            close.repeat(k),
                            &base[t.1..]
                        ),
                    )
                }
            }
            16 => {
                // Glue a prefix symbol directly in front of a token (`$x`, `@x`, `-x`, `#x`, ...).
                let toks = self.tokens(bi).clone();
                if toks.is_empty() {
                    ("prefix-token", base)
                } else {
                    let t = toks[rng.below(toks.len())];
                    let pre = *rng.pick(&["$", "@", "-", "!", "*", "&", "#", "~", "'", "::", ".", "$$", "r#"]);
                    ("prefix-token", format!("{}{}{}", &base[..t.0], pre, &base[t.0..]))
                }
            }
            12 => {
                // Token soup.
                let len = 1 + rng.below(60);
                let mut s = String::new();
                for _ in 0..len {
                    s.push_str(*rng.pick(SOUP_TOKENS));
                    if rng.chance(3, 4) {
                        s.push(' ');
                    }
                }
                ("soup", s)
            }
            13 => {
                // Soup inside a function body of a small valid file.
                let len = 1 + rng.below(30);
                let mut s = String::from("fn f() {\n");
                for _ in 0..len {
                    s.push_str(*rng.pick(SOUP_TOKENS));
                    s.push(' ');
                }
                if rng.bool() {
                    s.push_str("\n}\n");
                }
                ("soup-in-fn", s)
            }
            14 => {
                // Two mutations stacked: delete a token and insert a string elsewhere.
                let toks = self.tokens(bi).clone();
                if toks.len() < 2 {
                    ("double", base)
                } else {
                    let t = toks[rng.below(toks.len())];
                    let mut s = format!("{}{}", &base[..t.0], &base[t.1..]);
                    let a = floor_char(&s, rng.below(s.len() + 1));
                    s.insert_str(a, *rng.pick(INSERT_CHARS));
                    ("double", s)
                }
            }
            _ => {
                // Duplicate a line range.
                let lines: Vec<&str> = base.split_inclusive('\n').collect();
                if lines.is_empty() {
                    ("line-dup", base.clone())
                } else {
                    let i = rng.below(lines.len());
                    let j = (i + rng.below(5)).min(lines.len() - 1);
                    let mut out = String::new();
                    for (k, l) in lines.iter().enumerate() {
                        out.push_str(l);
                        if k == j {
                            for l2 in &lines[i..=j] {
                                out.push_str(l2);
                            }
                        }
                    }
                    ("line-dup", out)
                }
            }
        };
        (bi, name, text)
    }
}

pub fn token_spans(text: &str) -> Vec<(usize, usize)> {
    let db = SimpleParserDatabase::default();
    let (root, _diags) = db.parse_virtual_with_diagnostics(text);
    let mut out = vec![];
    for tok in root.tokens(&db) {
        let kind = tok.kind(&db);
        if is_trivia_token(kind) {
            continue;
        }
        let sp = tok.span(&db);
        let (a, b) = (sp.start.as_u32() as usize, sp.end.as_u32() as usize);
        if a < b && b <= text.len() && text.is_char_boundary(a) && text.is_char_boundary(b) {
            out.push((a, b));
        }
    }
    out.sort();
    out
}

pub fn is_trivia_token(kind: SyntaxKind) -> bool {
    matches!(
        kind,
        SyntaxKind::TokenWhitespace
            | SyntaxKind::TokenNewline
            | SyntaxKind::TokenSingleLineComment
            | SyntaxKind::TokenSingleLineDocComment
            | SyntaxKind::TokenSingleLineInnerComment
            | SyntaxKind::TokenEmpty
    )
}

// ---------------------------------------------------------------------------------------------
// C10: lossless tree.

#[derive(Debug)]
pub struct LosslessFailure {
    pub sig: String,
    pub desc: String,
}

struct Walk<'a> {
    db: &'a dyn Database,
    text: &'a str,
    leaves: String,
    nodes: u64,
    first_failure: Option<LosslessFailure>,
    /// (leaf start in `leaves`, kind, parent kind).
    leaf_index: Vec<(usize, SyntaxKind, SyntaxKind)>,
}

impl<'a> Walk<'a> {
    fn fail(&mut self, sig: String, desc: String) {
        if self.first_failure.is_none() {
            self.first_failure = Some(LosslessFailure { sig, desc });
        }
    }

    /// Walks `node`, which must start at `expected_offset`; returns its width.
    fn walk(&mut self, node: SyntaxNode<'a>, expected_offset: u32, parent: SyntaxKind) -> u32 {
        self.nodes += 1;
        let db = self.db;
        let kind = node.kind(db);
        let off = node.offset(db).as_u32();
        let width = node.width(db).as_u32();
        if off != expected_offset {
            self.fail(
                format!("span:offset:{kind:?}:{parent:?}"),
                format!(
                    "node {kind:?} (parent {parent:?}) has offset {off}, but the widths of its \
                     previous siblings put it at {expected_offset}"
                ),
            );
        }
        let span = node.span(db);
        if span.start.as_u32() != off || span.end.as_u32() != off + width {
            self.fail(
                format!("span:span:{kind:?}:{parent:?}"),
                format!("node {kind:?}: span() {span:?} != [offset {off}, offset+width {}]", off + width),
            );
        }
        if let Some(text_id) = node.text(db) {
            // A leaf (token).
            let leaf_text = text_id.long(db).as_str();
            self.leaf_index.push((self.leaves.len(), kind, parent));
            self.leaves.push_str(leaf_text);
            if leaf_text.len() as u32 != width {
                self.fail(
                    format!("span:leafwidth:{kind:?}:{parent:?}"),
                    format!("leaf {kind:?} text {leaf_text:?} has width {width}"),
                );
            }
            let (a, b) = (off as usize, (off + width) as usize);
            let in_src = if b <= self.text.len()
                && self.text.is_char_boundary(a)
                && self.text.is_char_boundary(b)
            {
                Some(&self.text[a..b])
            } else {
                None
            };
            if in_src != Some(leaf_text) {
                self.fail(
                    format!("leaftext:{kind:?}:{parent:?}"),
                    format!(
                        "leaf {kind:?} (parent {parent:?}) holds {leaf_text:?} but the source at \
                         its span [{a},{b}) is {in_src:?}"
                    ),
                );
            }
            return width;
        }
        let mut cur = off;
        let mut sum = 0u32;
        for child in node.get_children(db).iter() {
            let w = self.walk(*child, cur, kind);
            cur += w;
            sum += w;
        }
        if sum != width {
            self.fail(
                format!("span:width:{kind:?}:{parent:?}"),
                format!("node {kind:?}: width {width} != sum of children widths {sum}"),
            );
        }
        width
    }
}

/// Checks the lossless-tree invariants of `root` against `text`. Returns the number of nodes
/// walked, or the first failure.
pub fn check_lossless(
    db: &dyn Database,
    root: SyntaxNode<'_>,
    text: &str,
) -> Result<u64, LosslessFailure> {
    let mut w = Walk { db, text, leaves: String::new(), nodes: 0, first_failure: None, leaf_index: vec![] };
    let width = w.walk(root, 0, SyntaxKind::SyntaxFile);
    if w.leaves != text {
        // Locate the first diverging byte and the leaf that contains it.
        let common = w.leaves.bytes().zip(text.bytes()).take_while(|(a, b)| a == b).count();
        let li = w.leaf_index.partition_point(|(start, _, _)| *start <= common).saturating_sub(1);
        let (kind, parent) =
            w.leaf_index.get(li).map(|x| (x.1, x.2)).unwrap_or((SyntaxKind::SyntaxFile, SyntaxKind::SyntaxFile));
        let class = if w.leaves.len() < text.len() {
            "dropped"
        } else if w.leaves.len() > text.len() {
            "duplicated"
        } else {
            "reordered"
        };
        let lo = floor_char(text, common.saturating_sub(20));
        let hi = floor_char(text, common + 30);
        let llo = floor_char(&w.leaves, common.saturating_sub(20));
        let lhi = floor_char(&w.leaves, common + 30);
        return Err(LosslessFailure {
            sig: format!("{class}:{kind:?}:{parent:?}"),
            desc: format!(
                "concatenated leaves differ from the input at byte {common} ({class}; leaves {} bytes, \
                 input {} bytes): input has {:?}, leaves have {:?}",
                w.leaves.len(),
                text.len(),
                &text[lo..hi],
                &w.leaves[llo..lhi]
            ),
        });
    }
    if width as usize != text.len() {
        return Err(LosslessFailure {
            sig: "span:rootwidth".into(),
            desc: format!("root width {width} != input length {}", text.len()),
        });
    }
    if let Some(f) = w.first_failure {
        return Err(f);
    }
    Ok(w.nodes)
}

/// Parse + lossless check of one text. `Ok(nodes, n_parser_diags)`.
pub fn parse_and_check_lossless(text: &str) -> Result<(u64, usize), LosslessFailure> {
    let db = SimpleParserDatabase::default();
    let (root, diags) = db.parse_virtual_with_diagnostics(text);
    let ndiags = diags.get_all().len();
    // `get_text` of the root must also give the whole input.
    let nodes = check_lossless(&db, root, text)?;
    let gt = root.get_text(&db);
    if gt != text {
        return Err(LosslessFailure {
            sig: "gettext:root".into(),
            desc: format!("root.get_text() has {} bytes, input {}", gt.len(), text.len()),
        });
    }
    // get_text(n) == t[span(n)] for a sample of inner nodes (each call slices the file content).
    for (i, n) in root.descendants(&db).enumerate() {
        if i % 7 != 0 {
            continue;
        }
        let sp = n.span(&db);
        let (a, b) = (sp.start.as_u32() as usize, sp.end.as_u32() as usize);
        if b > text.len() || a > b || !text.is_char_boundary(a) || !text.is_char_boundary(b) {
            return Err(LosslessFailure {
                sig: format!("span:oob:{:?}", n.kind(&db)),
                desc: format!("node {:?} span [{a},{b}) is not a valid range of the input", n.kind(&db)),
            });
        }
        if n.get_text(&db) != &text[a..b] {
            return Err(LosslessFailure {
                sig: format!("gettext:{:?}", n.kind(&db)),
                desc: format!("get_text of {:?} != input[{a}..{b}]", n.kind(&db)),
            });
        }
    }
    Ok((nodes, ndiags))
}

/// Monitor self-test of C10: a tree must be rejected against any text it was not parsed from
/// (one byte dropped, doubled, swapped; trivia changed), and accepted against its own text.
pub fn c10_self_test() -> Vec<String> {
    use cairo_lang_parser::utils::SimpleParserDatabase;
    let text = "fn f(a: u8) -> u8 {\n    // note\n    a + 1 # $\n}\n";
    let db = SimpleParserDatabase::default();
    let (root, _) = db.parse_virtual_with_diagnostics(text);
    let mut failed = vec![];
    if check_lossless(&db, root, text).is_err() {
        failed.push("own text rejected".to_string());
    }
    let variants: [(&str, String); 5] = [
        ("byte dropped", text.replacen("a + 1", "a +1", 1)),
        ("byte doubled", text.replacen("note", "notee", 1)),
        ("bytes swapped", text.replacen("# $", "$ #", 1)),
        ("token replaced, same length", text.replacen("a + 1", "a - 1", 1)),
        ("suffix dropped", text[..text.len() - 2].to_string()),
    ];
    for (name, other) in variants {
        if check_lossless(&db, root, &other).is_ok() {
            failed.push(format!("accepted a different text ({name})"));
        }
    }
    failed
}

pub fn c10_worker(ctx: &mut Ctx) {
    install_panic_hook();
    let failed = c10_self_test();
    ctx.count("selftest.foreign_texts_rejected", if ctx.shard == 0 { 5 - failed.iter().filter(|f| f.starts_with("accepted")).count() as u64 } else { 0 });
    for f in failed {
        ctx.harness_error(format!("C10 oracle self-test failed: {f}"));
    }
    let mut corpus = TextCorpus::load();
    let total: u64 = ctx.tier.pick(24_000, 1_500_000);
    // Originals first.
    let nfiles = corpus.files.len() as u64;
    for idx in 0..(nfiles + total) {
        if !ctx.mine(idx) {
            continue;
        }
        let (kind, base, text) = if idx < nfiles {
            ("original", idx as usize, corpus.files[idx as usize].1.clone())
        } else {
            let mut rng = Rng::derive(ctx.seed, &[10, idx]);
            let (bi, k, t) = corpus.mutant(&mut rng);
            (k, bi, t)
        };
        if text.len() > 300_000 {
            continue;
        }
        ctx.begin_case(idx, &text);
        ctx.eval();
        ctx.count(&format!("kind.{kind}"), 1);
        match guarded(|| parse_and_check_lossless(&text)) {
            Ok(Ok((nodes, ndiags))) => {
                ctx.count("nodes_walked", nodes);
                if ndiags > 0 {
                    // Non-trivial: the parser went through error recovery.
                    ctx.nontrivial(fnv_str(&text));
                    ctx.count("with_parser_diagnostics", 1);
                } else if kind == "original" {
                    ctx.nontrivial(fnv_str(&text));
                }
                if idx % 5000 == 17 {
                    ctx.sample(json!({"kind": kind, "base": corpus.files[base].0, "parser_diags": ndiags,
                        "nodes": nodes, "text_head": text.chars().take(160).collect::<String>()}));
                }
            }
            Ok(Err(f)) => {
                ctx.nontrivial(fnv_str(&text));
                ctx.violation(
                    &f.sig,
                    &format!("{} [mutation {kind} of {}]", f.desc, corpus.files[base].0),
                    json!({"text": text, "kind": kind, "base": corpus.files[base].0}),
                );
            }
            Err((loc, msg)) => {
                // A panic while parsing/walking: the tree could not even be produced or read.
                ctx.violation(
                    &panic_sig(&loc, &msg),
                    &format!("panic at {loc}: {msg} [mutation {kind} of {}]", corpus.files[base].0),
                    json!({"text": text, "kind": kind, "base": corpus.files[base].0}),
                );
            }
        }
        ctx.maybe_flush();
    }
}

pub fn c10_replay(case: &serde_json::Value) -> Result<Option<String>, String> {
    install_panic_hook();
    let text = case.get("text").and_then(|t| t.as_str()).ok_or("no text in replay")?;
    match guarded(|| parse_and_check_lossless(text)) {
        Ok(Ok(_)) => Ok(None),
        Ok(Err(f)) => Ok(Some(format!("{}: {}", f.sig, f.desc))),
        Err((loc, msg)) => Ok(Some(format!("panic at {loc}: {msg}"))),
    }
}

// ---------------------------------------------------------------------------------------------
// C09: totality of the front end.

pub struct SemanticStage {
    db: Option<cairo_lang_compiler::db::RootDatabase>,
    used: usize,
    starknet: bool,
}

fn span_ok(db: &dyn Database, loc: SpanInFile<'_>) -> Result<(), String> {
    let Some(content) = db.file_content(loc.file_id) else {
        return Err("diagnostic points into a file without content".into());
    };
    let (a, b) = (loc.span.start.as_u32() as usize, loc.span.end.as_u32() as usize);
    if a > b || b > content.len() {
        return Err(format!("span [{a},{b}) outside file of {} bytes", content.len()));
    }
    if !content.is_char_boundary(a) || !content.is_char_boundary(b) {
        return Err(format!("span [{a},{b}) not on char boundaries"));
    }
    Ok(())
}

impl SemanticStage {
    pub fn new(starknet: bool) -> Self {
        SemanticStage { db: None, used: 0, starknet }
    }

    /// Runs syntax + semantic + lowering diagnostics on `text` as a virtual crate. Returns
    /// (number of diagnostics, number of module items recognised).
    pub fn run(&mut self, text: &str, serial: u64) -> Result<(usize, usize), (String, String)> {
        if self.db.is_none() || self.used >= 150 {
            let plugins =
                if self.starknet { crate::comp::Plugins::Starknet } else { crate::comp::Plugins::Default };
            self.db = Some(crate::comp::build_db(&crate::comp::Config::DEFAULT, plugins));
            self.used = 0;
        }
        self.used += 1;
        let db = self.db.as_ref().unwrap();
        let name = format!("c{serial}");
        let r = guarded(|| semantic_stage(db, &name, text));
        if r.is_err() {
            // Do not trust a database a query panicked in.
            self.db = None;
        }
        match r {
            Ok(Ok(v)) => Ok(v),
            Ok(Err(e)) => Err(("span".into(), e)),
            Err(e) => Err(e),
        }
    }
}

fn semantic_stage(
    db: &cairo_lang_compiler::db::RootDatabase,
    name: &str,
    text: &str,
) -> Result<(usize, usize), String> {
    use cairo_lang_defs::db::DefsGroup;
    use cairo_lang_defs::ids::ModuleId;
    use cairo_lang_lowering::db::LoweringGroup;
    use cairo_lang_semantic::db::SemanticGroup;
    use cairo_lang_parser::db::ParserGroup;
    use cairo_lang_utils::Intern;
    let input: CrateInput =
        crate::comp::virtual_crate(name, text, &crate::comp::latest_settings(), None);
    let crate_id = input.clone().into_crate_long_id(db).intern(db);
    let mut n = 0usize;
    let mut items = 0usize;
    let mut check = |loc: SpanInFile<'_>, what: &str| -> Result<(), String> {
        span_ok(db, loc).map_err(|e| format!("{what} diagnostic location: {e}"))?;
        let user = loc.user_location(db);
        span_ok(db, user).map_err(|e| format!("{what} diagnostic user location: {e}"))?;
        Ok(())
    };
    for module_id in db.crate_modules(crate_id).iter() {
        if let Ok(data) = module_id.module_data(db) {
            items += data.items(db).len();
        }
        if let Ok(files) = db.module_files(*module_id) {
            for f in files.iter().copied() {
                for e in db.file_syntax_diagnostics(f).get_all() {
                    n += 1;
                    check(e.location(db), "syntax")?;
                }
            }
        }
        if let Ok(g) = db.module_semantic_diagnostics(*module_id) {
            for e in g.get_all() {
                n += 1;
                check(e.location(db), "semantic")?;
            }
        }
        if let Ok(g) = db.module_lowering_diagnostics(*module_id) {
            for e in g.get_all() {
                n += 1;
                check(e.location(db), "lowering")?;
            }
        }
        let _ = ModuleId::CrateRoot(crate_id);
    }
    // Force the line/column mapping and message formatting of every diagnostic.
    let (s, _) = crate::comp::diagnostics(db, &[input]);
    let _ = s.len();
    Ok((n, items))
}

fn formatter_configs() -> Vec<cairo_lang_formatter::FormatterConfig> {
    use cairo_lang_formatter::{CollectionsBreakingBehavior as B, FormatterConfig};
    vec![
        FormatterConfig::default(),
        FormatterConfig { max_line_length: 20, tab_size: 2, ..FormatterConfig::default() }
            .sort_module_level_items(Some(false))
            .merge_use_items(Some(false)),
        FormatterConfig { max_line_length: 120, tab_size: 8, ..FormatterConfig::default() }
            .tuple_breaking_behavior(Some(B::SingleBreakPoint))
            .fixed_array_breaking_behavior(Some(B::LineByLine))
            .macro_call_breaking_behavior(Some(B::LineByLine))
            .allow_duplicate_uses(Some(true)),
    ]
}

/// Parse, walk, format under three configurations. Returns the number of parser diagnostics.
fn syntax_stages(text: &str) -> Result<usize, String> {
    let db = SimpleParserDatabase::default();
    let (root, diags) = db.parse_virtual_with_diagnostics(text);
    let all = diags.get_all();
    for d in &all {
        let loc = d.location(&db);
        span_ok(&db, loc).map_err(|e| format!("parser diagnostic location: {e}"))?;
    }
    let _ = diags.format(&db);
    for n in root.descendants(&db) {
        let _ = n.span(&db);
    }
    for cfg in formatter_configs() {
        let _ = cairo_lang_formatter::get_formatted_file(&db, &root, cfg);
    }
    Ok(all.len())
}

pub fn c09_worker(ctx: &mut Ctx) {
    install_panic_hook();
    let mut corpus = TextCorpus::load();
    let total: u64 = ctx.tier.pick(20_000, 1_000_000);
    // One in `sem_every` inputs also goes through semantic + lowering diagnostics.
    let sem_every: u64 = ctx.tier.pick(8, 10);
    let mut sem = SemanticStage::new(ctx.shard % 2 == 1);
    for idx in 0..total {
        if !ctx.mine(idx) {
            continue;
        }
        let mut rng = Rng::derive(ctx.seed, &[9, idx]);
        let (bi, kind, text) = corpus.mutant(&mut rng);
        if text.len() > 100_000 {
            continue;
        }
        ctx.begin_case(idx, &text);
        ctx.eval();
        ctx.count(&format!("kind.{kind}"), 1);
        let base = corpus.files[bi].0.clone();
        let replay = |stage: &str| json!({"text": text, "kind": kind, "base": base, "stage": stage});
        let ndiags = match guarded(|| syntax_stages(&text)) {
            Ok(Ok(n)) => n,
            Ok(Err(e)) => {
                ctx.violation("span:parser", &format!("{e} [mutation {kind} of {base}]"), replay("syntax"));
                continue;
            }
            Err((loc, msg)) => {
                ctx.violation(
                    &panic_sig(&loc, &msg),
                    &format!("panic at {loc}: {msg} [parse/format of mutation {kind} of {base}]"),
                    replay("syntax"),
                );
                continue;
            }
        };
        if ndiags > 0 {
            ctx.count("with_parser_diagnostics", 1);
        }
        if (idx / ctx.nshards as u64) % sem_every == 0 && text.len() < 40_000 {
            ctx.count("semantic_stage_runs", 1);
            match sem.run(&text, idx) {
                Ok((n, items)) => {
                    ctx.count("semantic_diagnostics_seen", n as u64);
                    if ndiags > 0 && items > 0 {
                        ctx.nontrivial(fnv_str(&text));
                    }
                    if n > 0 && idx % 1000 < 16 {
                        ctx.sample(json!({"kind": kind, "base": base, "parser_diags": ndiags,
                            "all_diags": n, "items": items,
                            "text_head": text.chars().take(120).collect::<String>()}));
                    }
                }
                Err((loc, msg)) if loc == "span" => {
                    ctx.violation("span:semantic", &format!("{msg} [mutation {kind} of {base}]"), replay("semantic"));
                }
                Err((loc, msg)) => {
                    ctx.violation(
                        &panic_sig(&loc, &msg),
                        &format!("panic at {loc}: {msg} [diagnostics of mutation {kind} of {base}]"),
                        replay("semantic"),
                    );
                }
            }
        }
        ctx.maybe_flush();
    }
}

pub fn c09_replay(case: &serde_json::Value) -> Result<Option<String>, String> {
    install_panic_hook();
    if let Some(t) = case.get("crash_case").and_then(|t| t.as_str()) {
        // A crash case: run all stages; if the process dies the driver sees it.
        let _ = syntax_stages(t);
        let mut sem = SemanticStage::new(false);
        let _ = sem.run(t, 0);
        let mut sem = SemanticStage::new(true);
        let _ = sem.run(t, 1);
        return Ok(None);
    }
    let text = case.get("text").and_then(|t| t.as_str()).ok_or("no text in replay")?;
    match guarded(|| syntax_stages(text)) {
        Ok(Ok(_)) => {}
        Ok(Err(e)) => return Ok(Some(e)),
        Err((loc, msg)) => return Ok(Some(format!("panic at {loc}: {msg}"))),
    }
    for starknet in [false, true] {
        let mut sem = SemanticStage::new(starknet);
        match sem.run(text, 0) {
            Ok(_) => {}
            Err((loc, msg)) => return Ok(Some(format!("{loc}: {msg}"))),
        }
    }
    Ok(None)
}

#[allow(dead_code)]
pub fn tier_name(t: Tier) -> &'static str {
    t.name()
}

pub fn debug_parse(text: &str) {
    let db = SimpleParserDatabase::default();
    let (root, diags) = db.parse_virtual_with_diagnostics(text);
    fn rec(db: &dyn Database, n: SyntaxNode<'_>, depth: usize) {
        let kind = n.kind(db);
        if let Some(t) = n.text(db) {
            println!("{}{:?} {:?} @{}", "  ".repeat(depth), kind, t.long(db).as_str(), n.offset(db).as_u32());
        } else {
            println!("{}{:?} @{} w{}", "  ".repeat(depth), kind, n.offset(db).as_u32(), n.width(db).as_u32());
            for c in n.get_children(db).iter() {
                rec(db, *c, depth + 1);
            }
        }
    }
    rec(&db, root, 0);
    println!("{}", diags.format(&db));
    println!("{:?}", check_lossless(&db, root, text).map_err(|e| (e.sig, e.desc)));
}

fn c10_sig(text: &str) -> Option<String> {
    match guarded(|| parse_and_check_lossless(text)) {
        Ok(Ok(_)) => None,
        Ok(Err(f)) => Some(f.sig),
        Err((loc, msg)) => Some(panic_sig(&loc, &msg)),
    }
}

/// Delta-debugging minimizer for C10 violations: keeps any violation class (dropped / reordered /
/// duplicated / span / panic), not necessarily the same leaf kinds.
pub fn minimize_c10(text: &str) -> (String, String) {
    install_panic_hook();
    let class = |s: &Option<String>| s.as_ref().map(|s| s.split(':').next().unwrap().to_string());
    minimize_text(text, &mut |t| class(&c10_sig(t)))
}

/// Signature of a C09 failure of `text`, if any.
pub fn c09_sig(text: &str, sem: &mut SemanticStage) -> Option<String> {
    match guarded(|| syntax_stages(text)) {
        Ok(Ok(_)) => {}
        Ok(Err(e)) => return Some(format!("span:{}", e.chars().take(30).collect::<String>())),
        Err((loc, msg)) => return Some(panic_sig(&loc, &msg)),
    }
    match sem.run(text, fnv_str(text)) {
        Ok(_) => None,
        Err((loc, msg)) if loc == "span" => Some(format!("span:{}", msg.chars().take(30).collect::<String>())),
        Err((loc, msg)) => Some(panic_sig(&loc, &msg)),
    }
}

pub fn minimize_c09(text: &str, starknet: bool) -> (String, String) {
    install_panic_hook();
    let mut sem = SemanticStage::new(starknet);
    minimize_text(text, &mut |t| c09_sig(t, &mut sem))
}

/// ddmin over characters keeping `sig(text)` equal to the original's.
pub fn minimize_text(
    text: &str,
    sig: &mut dyn FnMut(&str) -> Option<String>,
) -> (String, String) {
    let class = |s: &Option<String>| s.clone();
    let mut c10_sig = |t: &str| sig(t);
    let orig = c10_sig(text);
    let want = class(&orig);
    if want.is_none() {
        return ("held".into(), text.to_string());
    }
    let mut cur: Vec<char> = text.chars().collect();
    let mut chunk = (cur.len() / 2).max(1);
    while chunk >= 1 {
        let mut i = 0;
        let mut changed = false;
        while i < cur.len() {
            let end = (i + chunk).min(cur.len());
            let cand: String = cur[..i].iter().chain(cur[end..].iter()).collect();
            if class(&c10_sig(&cand)) == want {
                cur = cand.chars().collect();
                changed = true;
            } else {
                i += chunk;
            }
        }
        if chunk == 1 && !changed {
            break;
        }
        if !changed || chunk > 1 {
            chunk = if chunk == 1 { 1 } else { chunk / 2 };
        }
    }
    let min: String = cur.into_iter().collect();
    (c10_sig(&min).unwrap_or_default(), min)
}
