//! Verdict bookkeeping: per-shard results, merging, evidence files, replays, known findings.

use std::collections::{BTreeMap, BTreeSet};
use std::fs;
use std::io::{Seek, SeekFrom, Write};
use std::path::{Path, PathBuf};
use std::time::Instant;

use serde::{Deserialize, Serialize};
use serde_json::{Value, json};

pub const VERIF_DIR: &str = "/verif";
pub const REPO_DIR: &str = "/repo";

#[derive(Clone, Copy, Debug, PartialEq, Eq)]
pub enum Tier {
    Quick,
    Thorough,
}
impl Tier {
    pub fn name(self) -> &'static str {
        match self {
            Tier::Quick => "quick",
            Tier::Thorough => "thorough",
        }
    }
    pub fn parse(s: &str) -> Option<Tier> {
        match s {
            "quick" => Some(Tier::Quick),
            "thorough" => Some(Tier::Thorough),
            _ => None,
        }
    }
    /// Picks a tier dependent quantity.
    pub fn pick<T>(self, quick: T, thorough: T) -> T {
        match self {
            Tier::Quick => quick,
            Tier::Thorough => thorough,
        }
    }
}

/// A violation observed by a monitor.
#[derive(Clone, Debug, Serialize, Deserialize)]
pub struct Violation {
    /// Narrow, input-independent signature of the failing observation (see DESIGN.md 2.7).
    pub sig: String,
    /// Human readable description of what failed.
    pub desc: String,
    /// Everything needed to replay the case.
    pub replay: Value,
}

/// What one worker (shard) observed.
#[derive(Clone, Debug, Default, Serialize, Deserialize)]
pub struct ShardResult {
    pub evaluations: u64,
    /// Hashes of the distinct non-trivial cases.
    pub nontrivial: BTreeSet<u64>,
    /// Reasons for inconclusive cases with counts.
    pub inconclusive: BTreeMap<String, u64>,
    pub violations: Vec<Violation>,
    pub samples: Vec<Value>,
    /// Free-form coverage counters (summed over shards).
    pub counters: BTreeMap<String, u64>,
    /// Free-form coverage sets (united over shards).
    pub sets: BTreeMap<String, BTreeSet<String>>,
    /// Minimum-tracking values (min over shards).
    pub mins: BTreeMap<String, i64>,
    /// Next case index (for restart after a crash).
    pub next_index: u64,
    /// Set when the worker completed its loop.
    pub complete: bool,
    /// Harness-level problems (never a verdict).
    pub harness_errors: Vec<String>,
}

impl ShardResult {
    pub fn eval(&mut self) {
        self.evaluations += 1;
    }
    pub fn nontrivial(&mut self, h: u64) {
        self.nontrivial.insert(h);
    }
    pub fn inconclusive(&mut self, reason: &str) {
        *self.inconclusive.entry(reason.to_string()).or_default() += 1;
    }
    pub fn count(&mut self, key: &str, n: u64) {
        *self.counters.entry(key.to_string()).or_default() += n;
    }
    pub fn set_add(&mut self, key: &str, v: &str) {
        let s = self.sets.entry(key.to_string()).or_default();
        if s.len() < 2000 {
            s.insert(v.to_string());
        }
    }
    pub fn min(&mut self, key: &str, v: i64) {
        let e = self.mins.entry(key.to_string()).or_insert(v);
        *e = (*e).min(v);
    }
    pub fn sample(&mut self, v: Value) {
        if self.samples.len() < 4 {
            self.samples.push(v);
        }
    }
    pub fn harness_error(&mut self, e: String) {
        if self.harness_errors.len() < 20 {
            self.harness_errors.push(e);
        }
    }
    pub fn violation(&mut self, sig: &str, desc: &str, replay: Value) {
        self.count("violations_seen", 1);
        let same = self.violations.iter().filter(|v| v.sig == sig).count();
        if same < 3 && self.violations.len() < 50 {
            self.violations.push(Violation {
                sig: sig.to_string(),
                desc: desc.chars().take(2000).collect(),
                replay,
            });
        }
    }
    pub fn merge(&mut self, other: ShardResult) {
        self.evaluations += other.evaluations;
        self.nontrivial.extend(other.nontrivial);
        for (k, v) in other.inconclusive {
            *self.inconclusive.entry(k).or_default() += v;
        }
        for v in other.violations {
            let same = self.violations.iter().filter(|x| x.sig == v.sig).count();
            if same < 3 && self.violations.len() < 200 {
                self.violations.push(v);
            }
        }
        for s in other.samples {
            if self.samples.len() < 8 {
                self.samples.push(s);
            }
        }
        for (k, v) in other.counters {
            *self.counters.entry(k).or_default() += v;
        }
        for (k, v) in other.sets {
            self.sets.entry(k).or_default().extend(v);
        }
        for (k, v) in other.mins {
            let e = self.mins.entry(k).or_insert(v);
            *e = (*e).min(v);
        }
        self.harness_errors.extend(other.harness_errors);
    }
}

/// Worker-side context.
pub struct Ctx {
    pub prop: String,
    pub tier: Tier,
    pub seed: u64,
    pub shard: usize,
    pub nshards: usize,
    pub start: u64,
    pub out_path: PathBuf,
    pub journal: Option<fs::File>,
    pub res: ShardResult,
    pub started: Instant,
    last_flush: Instant,
}

impl Ctx {
    pub fn new(
        prop: &str,
        tier: Tier,
        seed: u64,
        shard: usize,
        nshards: usize,
        start: u64,
        out_path: PathBuf,
    ) -> Ctx {
        let journal = fs::OpenOptions::new()
            .create(true)
            .write(true)
            .truncate(true)
            .open(out_path.with_extension("journal"))
            .ok();
        Ctx {
            prop: prop.to_string(),
            tier,
            seed,
            shard,
            nshards,
            start,
            out_path,
            journal,
            res: ShardResult::default(),
            started: Instant::now(),
            last_flush: Instant::now(),
        }
    }

    /// True if the case with global index `idx` belongs to this shard and is not before `start`.
    pub fn mine(&self, idx: u64) -> bool {
        idx % self.nshards as u64 == self.shard as u64 && idx >= self.start
    }

    /// Records in the journal the case about to run, so that a crash identifies it.
    pub fn begin_case(&mut self, idx: u64, desc: &str) {
        self.res.next_index = idx;
        if let Some(j) = &mut self.journal {
            let d = desc.as_bytes();
            let d = &d[..d.len().min(1 << 16)];
            let mut buf = Vec::with_capacity(d.len() + 16);
            buf.extend_from_slice(&idx.to_le_bytes());
            buf.extend_from_slice(&(d.len() as u64).to_le_bytes());
            buf.extend_from_slice(d);
            let _ = j.seek(SeekFrom::Start(0));
            let _ = j.write_all(&buf);
        }
    }

    pub fn eval(&mut self) {
        self.res.eval();
    }
    pub fn nontrivial(&mut self, h: u64) {
        self.res.nontrivial(h);
    }
    pub fn inconclusive(&mut self, reason: &str) {
        self.res.inconclusive(reason);
    }
    pub fn count(&mut self, key: &str, n: u64) {
        self.res.count(key, n);
    }
    pub fn set_add(&mut self, key: &str, v: &str) {
        self.res.set_add(key, v);
    }
    pub fn min(&mut self, key: &str, v: i64) {
        self.res.min(key, v);
    }
    pub fn sample(&mut self, v: Value) {
        self.res.sample(v);
    }
    pub fn harness_error(&mut self, e: String) {
        self.res.harness_error(e);
    }
    pub fn violation(&mut self, sig: &str, desc: &str, replay: Value) {
        self.res.violation(sig, desc, replay);
        self.flush();
    }
    /// Merges the observations of a parallel task.
    pub fn absorb(&mut self, other: ShardResult) {
        let had = self.res.violations.len();
        self.res.merge(other);
        if self.res.violations.len() != had {
            self.flush();
        }
    }
    /// Seconds since the worker started.
    pub fn elapsed(&self) -> f64 {
        self.started.elapsed().as_secs_f64()
    }
    pub fn maybe_flush(&mut self) {
        if self.last_flush.elapsed().as_secs() >= 5 {
            self.flush();
        }
    }
    pub fn flush(&mut self) {
        self.last_flush = Instant::now();
        let tmp = self.out_path.with_extension("tmp");
        if let Ok(s) = serde_json::to_vec(&self.res) {
            if fs::write(&tmp, s).is_ok() {
                let _ = fs::rename(&tmp, &self.out_path);
            }
        }
    }
    pub fn finish(&mut self) {
        self.res.complete = true;
        self.flush();
    }
}

/// Static description of a check.
pub struct Spec {
    pub id: &'static str,
    pub level: &'static str,
    pub rule: &'static str,
    /// Minimal number of distinct non-trivial cases below which the run is declared inconclusive.
    pub floor: fn(Tier) -> u64,
    pub shards: fn(Tier) -> usize,
    /// Whether a worker that dies (signal / abort) refutes the property (C09, C14).
    pub crash_is_violation: bool,
    pub assumptions: &'static [&'static str],
    /// Timeout of one worker in seconds (watchdog; expiry is inconclusive).
    pub worker_timeout_s: fn(Tier) -> u64,
    /// Number of rayon threads inside one worker.
    pub rayon_threads: usize,
}

#[derive(Clone, Debug)]
pub struct KnownFinding {
    pub property: String,
    pub sig: String,
    pub repro: Option<String>,
    pub text: String,
}

/// Parses /verif/known_findings.txt. Lines: `finding: property=C10 sig=<sig> repro=<path> <text>`
/// and `fixed: property=C14 <commit> <text>` (the latter suppress nothing).
pub fn load_known_findings() -> Vec<KnownFinding> {
    let path = Path::new(VERIF_DIR).join("known_findings.txt");
    let Ok(content) = fs::read_to_string(path) else {
        return vec![];
    };
    let mut res = vec![];
    for line in content.lines() {
        let line = line.trim();
        let Some(rest) = line.strip_prefix("finding:") else {
            continue;
        };
        let mut property = String::new();
        let mut sig = String::new();
        let mut repro = None;
        let mut text = vec![];
        for tok in rest.split_whitespace() {
            if let Some(v) = tok.strip_prefix("property=") {
                if property.is_empty() {
                    property = v.to_string();
                    continue;
                }
            }
            if let Some(v) = tok.strip_prefix("sig=") {
                if sig.is_empty() {
                    sig = v.to_string();
                    continue;
                }
            }
            if let Some(v) = tok.strip_prefix("repro=") {
                if repro.is_none() {
                    repro = Some(v.to_string());
                    continue;
                }
            }
            text.push(tok);
        }
        res.push(KnownFinding { property, sig, repro, text: text.join(" ") });
    }
    res
}

/// Signatures are stored in the findings file with whitespace replaced.
pub fn sig_token(sig: &str) -> String {
    sig.chars().map(|c| if c.is_whitespace() { '_' } else { c }).collect()
}

pub struct Summary {
    pub exit_code: i32,
}

/// Merges shard results, writes the evidence file and replays, prints the verdict lines.
#[allow(clippy::too_many_arguments)]
pub fn finalize(
    spec: &Spec,
    tier: Tier,
    seed: u64,
    merged: ShardResult,
    wall_s: f64,
    extra_inconclusive_run: Vec<String>,
    known_replayed: Vec<(KnownFinding, bool)>,
) -> Summary {
    let known = load_known_findings();
    let known: Vec<&KnownFinding> = known.iter().filter(|k| k.property == spec.id).collect();
    let mut new_violations: Vec<&Violation> = vec![];
    let mut known_hits: BTreeMap<String, u64> = BTreeMap::new();
    for v in &merged.violations {
        let tok = sig_token(&v.sig);
        if known.iter().any(|k| k.sig == tok) {
            *known_hits.entry(tok).or_default() += 1;
        } else {
            new_violations.push(v);
        }
    }
    // Write replays of new violations.
    let replay_dir = Path::new(VERIF_DIR).join("replays").join(spec.id);
    let mut lines = vec![];
    let mut seen_sigs = BTreeSet::new();
    for v in &new_violations {
        if !seen_sigs.insert(v.sig.clone()) && seen_sigs.len() > 10 {
            continue;
        }
        let _ = fs::create_dir_all(&replay_dir);
        let body = json!({"property": spec.id, "sig": v.sig, "desc": v.desc, "case": v.replay});
        let text = serde_json::to_string_pretty(&body).unwrap();
        let name = format!("{:016x}.json", crate::rng::fnv(text.as_bytes()));
        let path = replay_dir.join(name);
        let _ = fs::write(&path, text);
        lines.push(format!(
            "VIOLATION property={} replay={} sig={} :: {}",
            spec.id,
            path.display(),
            sig_token(&v.sig),
            v.desc.lines().next().unwrap_or("")
        ));
    }
    let mut run_inconclusive = extra_inconclusive_run;
    let floor = (spec.floor)(tier);
    if (merged.nontrivial.len() as u64) < floor.max(2) {
        run_inconclusive.push(format!(
            "only {} distinct non-trivial cases observed (floor {})",
            merged.nontrivial.len(),
            floor.max(2)
        ));
    }
    if merged.samples.is_empty() {
        run_inconclusive.push("no sample case was recorded".to_string());
    }
    for e in &merged.harness_errors {
        run_inconclusive.push(format!("harness error: {e}"));
    }

    for (k, still_fails) in &known_replayed {
        if *still_fails {
            println!("KNOWN-FINDING: property={} sig={} {}", spec.id, k.sig, k.text);
        } else {
            println!(
                "NOTE: known finding sig={} no longer reproduces from its stored repro ({})",
                k.sig,
                k.repro.clone().unwrap_or_default()
            );
        }
    }
    for (sig, n) in &known_hits {
        if !known_replayed.iter().any(|(k, f)| *f && &k.sig == sig) {
            let k = known.iter().find(|k| &k.sig == sig).unwrap();
            println!("KNOWN-FINDING: property={} sig={} {} (seen {n}x in exploration)", spec.id, sig, k.text);
        }
    }

    let inconclusive_total: u64 = merged.inconclusive.values().sum();
    let mut coverage = serde_json::Map::new();
    coverage.insert("evaluations".into(), json!(merged.evaluations.max(0)));
    coverage.insert("distinct_nontrivial".into(), json!(merged.nontrivial.len()));
    coverage.insert("rule".into(), json!(spec.rule));
    coverage.insert("samples".into(), json!(merged.samples));
    coverage.insert("inconclusive_cases".into(), json!(inconclusive_total));
    coverage.insert("inconclusive_reasons".into(), json!(merged.inconclusive));
    coverage.insert("counters".into(), json!(merged.counters));
    let sets: BTreeMap<&String, Value> = merged
        .sets
        .iter()
        .map(|(k, v)| (k, json!({"n": v.len(), "items": v.iter().take(400).collect::<Vec<_>>()})))
        .collect();
    coverage.insert("sets".into(), json!(sets));
    coverage.insert("mins".into(), json!(merged.mins));
    coverage.insert("known_finding_hits".into(), json!(known_hits));
    coverage.insert("run_inconclusive".into(), json!(run_inconclusive));
    let evidence = json!({
        "property_id": spec.id,
        "tier": tier.name(),
        "seed": seed,
        "level": spec.level,
        "coverage": Value::Object(coverage),
        "assumptions": spec.assumptions,
        "wall_s": wall_s,
        "violations": new_violations.len(),
    });
    let ev_dir = Path::new(VERIF_DIR).join("evidence");
    let _ = fs::create_dir_all(&ev_dir);
    let ev_path = ev_dir.join(format!("{}.json", spec.id));
    let tmp = ev_dir.join(format!("{}.json.tmp", spec.id));
    fs::write(&tmp, serde_json::to_string_pretty(&evidence).unwrap()).expect("write evidence");
    fs::rename(&tmp, &ev_path).expect("rename evidence");

    println!(
        "SUMMARY property={} tier={} seed={} evaluations={} distinct_nontrivial={} inconclusive_cases={} \
         violations={} known_hits={} wall_s={:.1}",
        spec.id,
        tier.name(),
        seed,
        merged.evaluations,
        merged.nontrivial.len(),
        inconclusive_total,
        new_violations.len(),
        known_hits.values().sum::<u64>(),
        wall_s
    );
    for l in &lines {
        println!("{l}");
    }
    let exit_code = if !new_violations.is_empty() {
        1
    } else if !run_inconclusive.is_empty() {
        for r in &run_inconclusive {
            println!("INCONCLUSIVE-RUN: property={} {r}", spec.id);
        }
        3
    } else {
        0
    };
    Summary { exit_code }
}
