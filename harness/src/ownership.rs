//! C08(b): a matrix of ownership violations. Every program here is a small, otherwise well-typed
//! function in which one non-copyable value is moved and then used again, or a value without
//! `Drop`/`Destruct` is left to go out of scope, in one of many control-flow shapes; each must be
//! rejected with an error. Every violating program has a *valid twin* that differs only in the
//! violating statement and must be error-free and compile all the way (C08(a)) - so a rejection
//! is known to come from the violation, and the borrow checker is also watched for rejecting too much.

use serde_json::json;

use crate::comp::{self, Config, Plugins};
use crate::exec::{self, Prog};
use crate::frontend::{guarded, panic_sig};
use crate::report::ShardResult;
use crate::rng::{Rng, fnv_str};

const PRELUDE: &str = "use core::dict::Felt252Dict;
#[derive(Drop)]
struct Holder { a: Array<felt252>, n: felt252 }
#[derive(Destruct)]
struct Wrap<T> { inner: T }
struct NoDrop { x: felt252 }
#[derive(Drop)]
enum Carrier { A: Array<felt252>, B }
fn eat<T, +Drop<T>>(t: T) {}
fn eat_nodrop(nd: NoDrop) { let NoDrop { x: _ } = nd; }
fn eat_dict(d: Felt252Dict<felt252>) {}
fn make_nodrop() -> NoDrop { NoDrop { x: 5 } }
";

/// (name, type, initializer, a read of `v` that needs it un-moved, how to consume `v`)
const VALUES: &[(&str, &str, &str, &str, &str)] = &[
    ("array", "Array<felt252>", "array![1, 2]", "let _r = v.len();", "eat(v);"),
    ("struct", "Holder", "Holder { a: array![1], n: 2 }", "let _r = v.n;", "eat(v);"),
    ("tuple", "(Array<felt252>, felt252)", "(array![1], 2)", "let (_ra, _rb) = v;", "eat(v);"),
    ("option", "Option<Array<felt252>>", "Option::Some(array![1])", "let _r = v.is_some();", "eat(v);"),
    ("enum", "Carrier", "Carrier::A(array![1])", "let _r = match v { Carrier::A(_) => 1, Carrier::B => 2 };", "eat(v);"),
    ("box", "Box<Array<felt252>>", "BoxTrait::new(array![1])", "let _r = v.unbox();", "eat(v);"),
    ("dict", "Felt252Dict<felt252>", "Default::default()", "let _r = v.squash();", "eat_dict(v);"),
];

/// Ways to move `v` away.
const MOVES: &[(&str, &str)] = &[
    ("let", "let _m = v;"),
    ("call", "CONSUME"),
    ("struct-member", "let _m = Wrap { inner: v };"),
    ("tuple-member", "let _m = (v, 1);"),
    ("array-append", "let mut _m = array![]; _m.append(v);"),
    ("some", "let _m = Option::Some(v);"),
];

/// Uses of `v` after it was moved.
const USES: &[(&str, &str)] = &[
    ("move-again", "let _u = v;"),
    ("read", "READ"),
    ("snapshot", "let _u = @v;"),
    ("call", "CONSUME"),
];

/// Control-flow shapes. `M` = the move, `U` = the later use. The twin replaces `U` by nothing
/// (or, for shapes where the move itself repeats, `M` by a read).
const SHAPES: &[(&str, &str, bool)] = &[
    ("straight", "M U", false),
    ("move-in-then-branch", "if c { M } U", false),
    ("move-in-else-branch", "if c { } else { M } U", false),
    ("move-in-both-branches", "if c { M } else { M } U", false),
    ("move-in-option-arm", "match o { Option::Some(_) => { M }, Option::None => {} } U", false),
    ("move-in-int-arm", "match k { 0 => { M }, 1 => {}, _ => {} } U", false),
    ("move-in-default-arm", "match k { 0 => {}, _ => { M } } U", false),
    ("move-in-nested-block", "{ { M } } U", false),
    ("use-in-branch", "M if c { U }", false),
    ("use-in-arm", "M match k { 0 => {}, _ => { U } }", false),
    ("use-in-loop", "M loop { U break; }", false),
    ("move-in-once-loop", "loop { M break; } U", false),
    ("move-in-nested-branch", "if c { if k == 3 { M } } U", false),
    ("use-after-inner-return-path", "if c { if k == 3 { return 1; } M } U", false),
    // The move repeats on the next iteration: no later use needed.
    ("move-in-loop", "loop { if c { break; } M }", true),
    ("move-in-while", "let mut i = 0_u32; while i < k { M i += 1; }", true),
    ("move-in-for", "for _i in 0..k { M }", true),
    ("move-in-loop-branch", "let mut i = 0_u32; loop { if i == k { break; } if c { M } i += 1; }", true),
];

/// Shapes in which a value of a type without Drop / Destruct goes out of scope. `N` = an expression
/// producing the value. The twin consumes it with `eat_nodrop`.
const NODROP_SHAPES: &[(&str, &str, &str)] = &[
    ("unused-binding", "let _nd = NEW;", "eat_nodrop(NEW);"),
    ("named-binding", "let nd = NEW;", "let nd = NEW; eat_nodrop(nd);"),
    ("discarded-result", "make_nodrop();", "eat_nodrop(make_nodrop());"),
    ("wildcard-let", "let _ = NEW;", "eat_nodrop(NEW);"),
    ("in-branch", "if c { let _nd = NEW; }", "if c { eat_nodrop(NEW); }"),
    ("in-arm", "match k { 0 => { let _nd = NEW; }, _ => {} }", "match k { 0 => { eat_nodrop(NEW); }, _ => {} }"),
    ("in-loop", "loop { let _nd = NEW; break; }", "loop { eat_nodrop(NEW); break; }"),
    ("consumed-on-one-path", "let nd = NEW; if c { eat_nodrop(nd); }", "let nd = NEW; if c { eat_nodrop(nd); } else { eat_nodrop(nd); }"),
    ("overwritten", "let mut nd = NEW; nd = NEW; eat_nodrop(nd);", "let mut nd = NEW; eat_nodrop(nd); nd = NEW; eat_nodrop(nd);"),
    ("tuple-part", "let (_a, _b) = (NEW, 1);", "let (a, _b) = (NEW, 1); eat_nodrop(a);"),
    ("early-return", "let nd = NEW; if c { return 1; } eat_nodrop(nd);", "let nd = NEW; if c { eat_nodrop(nd); return 1; } eat_nodrop(nd);"),
    ("option-payload", "let _o = Option::Some(NEW);", "match Option::Some(NEW) { Option::Some(x) => eat_nodrop(x), Option::None => {} }"),
];

/// Hand-written shapes in which the second use happens through a pattern, a member, an argument
/// list or a `ref` - forms the (move, use) grid above does not produce. (name, violating, twin)
const SPECIAL: &[(&str, &str, &str)] = &[
    ("catch-all-rebind/enum", "let v = Carrier::A(array![1]); match v { Carrier::A(_) => {}, other => { eat(other); } }", "let v = Carrier::A(array![1]); match v { Carrier::A(_) => {}, _ => {} }"),
    ("catch-all-rebind/enum-first-arm-binds", "let v = Carrier::A(array![1]); match v { Carrier::A(a) => { eat(a); }, other => { eat(other); } }", "let v = Carrier::A(array![1]); match v { Carrier::A(a) => { eat(a); }, Carrier::B => {} }"),
    ("catch-all-rebind/option", "let v = Option::Some(array![1]); match v { Option::Some(_) => {}, other => { eat(other); } }", "let v = Option::Some(array![1]); match v { Option::Some(_) => {}, Option::None => {} }"),
    ("catch-all-rebind/nested", "let v = Carrier::A(array![1]); match Option::Some(v) { Option::Some(Carrier::A(_)) => {}, Option::Some(other) => { eat(other); }, Option::None => {} }", "let v = Carrier::A(array![1]); match Option::Some(v) { Option::Some(Carrier::A(_)) => {}, Option::Some(_) => {}, Option::None => {} }"),
    ("catch-all-rebind/in-branch", "let v = Carrier::A(array![1]); if c { match v { Carrier::A(_) => {}, other => { eat(other); } } }", "let v = Carrier::A(array![1]); if c { match v { Carrier::A(_) => {}, _ => {} } }"),
    ("partial-move/member-then-whole", "let h = Holder { a: array![1], n: 2 }; let a = h.a; eat(a); eat(h);", "let h = Holder { a: array![1], n: 2 }; let a = h.a; eat(a);"),
    ("partial-move/destructure-then-whole", "let h = Holder { a: array![1], n: 2 }; let Holder { a, n: _ } = h; eat(a); eat(h);", "let h = Holder { a: array![1], n: 2 }; let Holder { a, n: _ } = h; eat(a);"),
    ("partial-move/member-twice", "let h = Holder { a: array![1], n: 2 }; let a = h.a; let b = h.a; eat(a); eat(b);", "let h = Holder { a: array![1], n: 2 }; let a = h.a; eat(a);"),
    ("ref-after-move", "let mut v: Array<felt252> = array![1]; eat(v); v.append(2);", "let mut v: Array<felt252> = array![1]; v.append(2); eat(v);"),
    ("twice-in-arguments/tuple", "let v: Array<felt252> = array![1]; let _t = (v, v);", "let v: Array<felt252> = array![1]; let _t = (v, 1);"),
    ("twice-in-arguments/array-literal", "let v: Array<felt252> = array![1]; let _t = array![v, v];", "let v: Array<felt252> = array![1]; let _t = array![v];"),
    ("twice-in-arguments/struct", "let v: Array<felt252> = array![1]; let _t = Wrap { inner: (v, v) };", "let v: Array<felt252> = array![1]; let _t = Wrap { inner: (v, 2) };"),
    ("if-let-then-whole", "let v = Option::Some(array![1]); if let Option::Some(x) = v { eat(x); } eat(v);", "let v = Option::Some(array![1]); if let Option::Some(x) = v { eat(x); }"),
    ("match-binding-then-whole", "let v = Carrier::A(array![1]); match v { Carrier::A(a) => { eat(a); }, Carrier::B => {} } eat(v);", "let v = Carrier::A(array![1]); match v { Carrier::A(a) => { eat(a); }, Carrier::B => {} }"),
    ("loop-carried-rebind", "let mut v: Array<felt252> = array![1]; let mut i = 0_u32; while i < k { let w = v; eat(w); i += 1; }", "let mut v: Array<felt252> = array![1]; let mut i = 0_u32; while i < k { let w = v; v = array![]; eat(w); i += 1; }"),
    ("moved-in-condition", "let v: Array<felt252> = array![1]; if Option::Some(v).is_some() { } eat(v);", "let v: Array<felt252> = array![1]; if Option::Some(v).is_some() { }"),
];

pub struct Case {
    pub name: String,
    pub violating: String,
    pub twin: String,
}

fn function(body: &str) -> String {
    format!("{PRELUDE}fn f(c: bool, k: u32, o: Option<felt252>) -> felt252 {{\n    {body}\n    0\n}}\n")
}

pub fn all_cases() -> Vec<Case> {
    let mut out = vec![];
    for (vname, ty, init, read, consume) in VALUES {
        for (mname, mv) in MOVES {
            // An array of dictionaries cannot be dropped at all: not a valid twin.
            if *vname == "dict" && *mname == "array-append" {
                continue;
            }
            let mv = mv.replace("CONSUME", consume);
            for (sname, shape, repeats) in SHAPES {
                let uses: Vec<(&str, String)> = if *repeats {
                    vec![("-", String::new())]
                } else {
                    USES.iter().map(|(n, u)| (*n, u.replace("READ", read).replace("CONSUME", consume))).collect()
                };
                for (uname, u) in uses {
                    let decl = format!("let {}v: {ty} = {init};", if *vname == "dict" { "mut " } else { "" });
                    let bad = shape.replace('M', &mv).replace('U', &u);
                    // Twin: no later use; for repeating shapes the move becomes a harmless read
                    // ... of a fresh copyable value (the loop stays, the move goes).
                    let good = if *repeats { shape.replace('M', "let _z = k;") } else { shape.replace('M', &mv).replace('U', "") };
                    out.push(Case {
                        name: format!("use-after-move/{vname}/{mname}/{sname}/{uname}"),
                        violating: function(&format!("{decl}\n    {bad}")),
                        twin: function(&format!("{decl}\n    {good}")),
                    });
                }
            }
        }
    }
    for (sname, bad, good) in NODROP_SHAPES {
        for (nname, n) in [("literal", "NoDrop { x: 1 }"), ("call", "make_nodrop()")] {
            out.push(Case {
                name: format!("undropped/{sname}/{nname}"),
                violating: function(&bad.replace("NEW", n)),
                twin: function(&good.replace("NEW", n)),
            });
        }
    }
    for (name, bad, good) in SPECIAL {
        out.push(Case { name: format!("special/{name}"), violating: function(bad), twin: function(good) });
    }
    // A parameter of a type without Drop that is never consumed.
    out.push(Case {
        name: "undropped/parameter".into(),
        violating: format!("{PRELUDE}fn f(nd: NoDrop) -> felt252 {{ 0 }}\n"),
        twin: format!("{PRELUDE}fn f(nd: NoDrop) -> felt252 {{ eat_nodrop(nd); 0 }}\n"),
    });
    out
}

/// Runs `cases` on one database (the corelib is analysed once). Counters and violations go to `acc`.
pub fn run_cases(acc: &mut ShardResult, cases: &[&Case], tag: u64) {
    let db = comp::build_db(&Config::DEFAULT, Plugins::Default);
    for (i, case) in cases.iter().enumerate() {
        let class = case.name.split('/').next().unwrap_or("").to_string();
        // (b) the violating program must be rejected.
        acc.eval();
        let crate_name = format!("own{tag}x{i}");
        let r = guarded(|| {
            let c = comp::virtual_crate(&format!("{crate_name}bad"), &case.violating, &comp::latest_settings(), None);
            comp::diagnostics(&db, &[c])
        });
        match r {
            Ok((diag, true)) => {
                acc.count(&format!("matrix.{class}.rejected"), 1);
                acc.nontrivial(fnv_str(&case.name));
                let ownership = diag.contains("was previously moved") || diag.contains("not dropped") || diag.contains("Variable was previously") || diag.contains("Variable not dropped");
                if ownership {
                    acc.count("matrix.rejected_with_ownership_diagnostic", 1);
                } else {
                    // Rejected, but for another reason: the template itself is wrong.
                    acc.count("matrix.rejected_for_another_reason", 1);
                    acc.set_add("matrix.templates_rejected_for_another_reason", &format!("{}: {}", case.name, diag.lines().next().unwrap_or("")));
                }
            }
            Ok((_, false)) => {
                acc.violation(
                    &format!("ownership-violation-accepted:{}", shape_sig(&case.name)),
                    &format!("{}: a program with this ownership violation is accepted without an error diagnostic", case.name),
                    json!({"matrix": case.name, "source": case.violating}),
                );
            }
            Err((loc, msg)) => {
                acc.violation(&format!("panic:{}", panic_sig(&loc, &msg)), &format!("{}: diagnostics panicked at {loc}: {msg}", case.name), json!({"matrix": case.name, "source": case.violating}));
            }
        }
        // (a) the twin is error-free and compiles all the way.
        acc.eval();
        let r = guarded(|| {
            let c = comp::virtual_crate(&format!("{crate_name}ok"), &case.twin, &comp::latest_settings(), None);
            let (diag, errors) = comp::diagnostics(&db, std::slice::from_ref(&c));
            if errors {
                return Err(format!("DIAG {}", diag.lines().take(3).collect::<Vec<_>>().join(" | ")));
            }
            let sierra = comp::sierra(&db, &[c]).map_err(|e| format!("NO-SIERRA {e}"))?;
            Prog::new(sierra, Some(exec::metadata_config(true, Default::default()))).map(|_| ()).map_err(|e| format!("NO-CASM {e}"))
        });
        match r {
            Ok(Ok(())) => {
                acc.count("matrix.twins_compiled", 1);
                acc.nontrivial(fnv_str(&format!("twin|{}", case.name)));
            }
            Ok(Err(e)) if e.starts_with("DIAG") => {
                // The twin is meant to be valid; if the front end disagrees the template is
                // wrong (or the checker rejects too much) - reported, not a C08 violation.
                acc.count("matrix.twins_rejected", 1);
                acc.set_add("matrix.twins_rejected", &format!("{}: {}", case.name, e.chars().take(160).collect::<String>()));
            }
            Ok(Err(e)) => {
                acc.violation(
                    &format!("error-free-but-not-compilable:{}", e.split_whitespace().next().unwrap_or("")),
                    &format!("{} (valid twin): no error diagnostics but {e}", case.name),
                    json!({"matrix": case.name, "twin": true, "source": case.twin}),
                );
            }
            Err((loc, msg)) => {
                acc.violation(&format!("panic:{}", panic_sig(&loc, &msg)), &format!("{} (valid twin): the compiler panicked at {loc}: {msg}", case.name), json!({"matrix": case.name, "twin": true, "source": case.twin}));
            }
        }
    }
}

/// Signature of an accepted violation: class / value kind / shape (not the move or use form).
fn shape_sig(name: &str) -> String {
    let p: Vec<&str> = name.split('/').collect();
    match p.as_slice() {
        [class, value, _mv, shape, _use] => format!("{class}/{value}/{shape}"),
        _ => name.to_string(),
    }
}

/// The quick tier takes a seeded sample that still covers every value kind, move form, shape and use form.
pub fn select(cases: &[Case], rng: &mut Rng, n: usize) -> Vec<usize> {
    let mut idx: Vec<usize> = (0..cases.len()).collect();
    for i in (1..idx.len()).rev() {
        idx.swap(i, rng.below(i + 1));
    }
    // Undropped cases are few: always all of them.
    let always = |n: &str| n.starts_with("undropped") || n.starts_with("special");
    let mut out: Vec<usize> = idx.iter().copied().filter(|i| always(&cases[*i].name)).collect();
    out.extend(idx.into_iter().filter(|i| !always(&cases[*i].name)).take(n));
    out
}

pub fn replay(case: &serde_json::Value) -> Result<Option<String>, String> {
    let name = case["matrix"].as_str().ok_or("no matrix name")?;
    let all = all_cases();
    let c = all.iter().find(|c| c.name == name).ok_or("unknown matrix case")?;
    let mut acc = ShardResult::default();
    run_cases(&mut acc, &[c], 0);
    Ok(acc.violations.first().map(|v| format!("{}: {}", v.sig, v.desc)))
}
