//! C01 (compiled programs compute what the source means) and C08 (error-free programs always
//! compile; ownership violations are always rejected) over the generated programs of W1.

use cairo_lang_utils::verif;
use rayon::prelude::*;
use serde_json::json;

use crate::comp::{self, Config, Plugins};
use crate::exec::{self, Outcome, Prog};
use crate::execchecks::AMPLE_GAS;
use crate::frontend::{guarded, install_panic_hook, panic_sig};
use crate::pgen::{self, Program, V};
use crate::report::{Ctx, ShardResult, Tier};
use crate::rng::{Rng, fnv_str};
use crate::values::{self, Val, to_felt};

fn front_end(cfg: &Config, src: &str) -> Result<Result<cairo_lang_sierra::program::Program, String>, (String, String)> {
    guarded(|| {
        let db = comp::build_db(cfg, Plugins::Default);
        let c = comp::virtual_crate("test", src, &comp::latest_settings(), None);
        let (diag, has_errors) = comp::diagnostics(&db, std::slice::from_ref(&c));
        if has_errors {
            return Err(format!("DIAGNOSTICS\n{diag}"));
        }
        comp::sierra(&db, &[c]).map_err(|e| format!("NO-SIERRA {e}"))
    })
}

fn configs_for(tier: Tier, rng: &mut Rng) -> Vec<Config> {
    let lattice = Config::lattice(tier == Tier::Thorough);
    let mut v = vec![Config::DEFAULT, Config::DISABLED];
    let extra = *rng.pick(&lattice);
    if !v.contains(&extra) {
        v.push(extra);
    }
    v
}

/// One generated program: C01 runs and C08(a) acceptance. `prop` selects what is reported.
pub fn check_program(acc: &mut ShardResult, prop: &str, seed: u64, idx: u64, tier: Tier) {
    let mut rng = Rng::derive(seed, &[1, idx]);
    let (program, move_sites) = pgen::generate(&mut rng);
    let src = pgen::render_program(&program);
    let replay = json!({"seed": seed, "idx": idx, "source": src});
    acc.eval();
    let cfgs = if prop == "C08" { Config::lattice(tier == Tier::Thorough) } else { configs_for(tier, &mut rng) };
    let mut progs: Vec<(Config, Prog)> = vec![];
    for (ci, cfg) in cfgs.iter().enumerate() {
        match front_end(cfg, &src) {
            Ok(Ok(sierra)) => {
                match guarded(|| Prog::new(sierra, Some(exec::metadata_config(cfg.linear, Default::default())))) {
                    Ok(Ok(p)) => progs.push((*cfg, p)),
                    Ok(Err(e)) => {
                        // Legacy solver limitations aside, an error-free program must go all the way.
                        if cfg.linear {
                            if prop == "C08" {
                                acc.violation(&format!("error-free-but-not-compilable:{}", e.chars().filter(|c| !c.is_ascii_digit()).take(40).collect::<String>()), &format!("generated program #{idx} has no error diagnostics but Sierra validation / metadata / CASM generation fails under {}: {e}", cfg.name()), replay.clone());
                            } else {
                                acc.count("cross.C08.violations", 1);
                            }
                            return;
                        }
                        acc.inconclusive("legacy solver cannot handle the program");
                    }
                    Err((loc, msg)) => {
                        if prop == "C08" {
                            acc.violation(&format!("panic:{}", panic_sig(&loc, &msg)), &format!("generated program #{idx}: Sierra->CASM panicked at {loc}: {msg} under {}", cfg.name()), replay.clone());
                        } else {
                            acc.count("cross.C08.violations", 1);
                        }
                        return;
                    }
                }
            }
            Ok(Err(e)) if e.starts_with("DIAGNOSTICS") => {
                if ci == 0 {
                    // The front end rejects a generated program: a generator bug or a typing
                    // disagreement - outside the property's premise.
                    acc.inconclusive("front end reports errors on a generated program");
                    let first = e.lines().nth(1).unwrap_or("").chars().filter(|c| !c.is_ascii_digit()).take(90).collect::<String>();
                    acc.set_add("front_end_rejections", &first);
                    return;
                }
                if prop == "C08" {
                    acc.violation("diagnostics-depend-on-configuration", &format!("generated program #{idx} is error-free under {} but not under {}: {}", cfgs[0].name(), cfg.name(), e.lines().nth(1).unwrap_or("")), replay.clone());
                }
                return;
            }
            Ok(Err(e)) => {
                if prop == "C08" {
                    acc.violation("error-free-but-no-sierra", &format!("generated program #{idx} has no error diagnostics but compilation fails under {}: {}", cfg.name(), e.chars().take(300).collect::<String>()), replay.clone());
                } else {
                    acc.count("cross.C08.violations", 1);
                }
                return;
            }
            Err((loc, msg)) => {
                if prop == "C08" {
                    acc.violation(&format!("panic:{}", panic_sig(&loc, &msg)), &format!("generated program #{idx}: the compiler panicked at {loc}: {msg} under {}", cfg.name()), replay.clone());
                } else {
                    acc.count("cross.C08.violations", 1);
                }
                return;
            }
        }
    }
    acc.count("programs_compiled_under_all_configs", 1);
    if prop == "C08" {
        acc.nontrivial(fnv_str(&src));
        // (b) ownership injections.
        ownership_injections(acc, idx, &program, &src, &move_sites);
        if idx % 40 == 0 {
            acc.sample(json!({"program": idx, "functions": program.fns.len(), "bytes": src.len(), "configs": cfgs.len(), "source_head": src.chars().take(300).collect::<String>()}));
        }
        return;
    }
    // C01: run on several inputs under every configuration.
    let inputs = tier.pick(8, 25);
    let main_ret = program.fns.last().unwrap().ret.clone();
    for k in 0..inputs {
        let mut arng = Rng::derive(seed, &[101, idx, k]);
        let args = pgen::main_args(&program, &mut arng);
        let expect = match guarded(|| pgen::eval_main(&program, &args)) {
            Ok(Some(r)) => r,
            Ok(None) => {
                acc.inconclusive("reference evaluator exceeded its step budget");
                continue;
            }
            Err((loc, msg)) => {
                acc.harness_error(format!("reference evaluator panicked at {loc}: {msg} on program #{idx}"));
                return;
            }
        };
        let expect_obs: Result<Val, Vec<String>> = match &expect {
            Ok(v) => Ok(pgen::to_val(&program, &main_ret, v)),
            Err(d) => Err(d.iter().map(|x| to_felt(x).to_string()).collect()),
        };
        for (cfg, prog) in &progs {
            let Ok(func) = prog.runner.find_function("::main") else {
                acc.inconclusive("main not found");
                continue;
            };
            let func = func.clone();
            acc.eval();
            let rec = match guarded(|| exec::run(prog, &func, pgen::args_to_runner(&program, &args), Some(AMPLE_GAS))) {
                Ok(r) => r,
                Err((loc, msg)) => {
                    acc.inconclusive(&format!("runner panicked: {}", panic_sig(&loc, &msg)));
                    continue;
                }
            };
            let got: Result<Val, Vec<String>> = match &rec.outcome {
                Outcome::Success(cells) => Ok(values::decode_result(&prog.builder, &func, cells, &rec.memory)),
                Outcome::Panic(d) => {
                    if d.len() == 1 && d[0] == starknet_types_core::felt::Felt::from_bytes_be_slice(b"Out of gas") {
                        acc.inconclusive("out of gas");
                        continue;
                    }
                    Err(d.iter().map(|f| f.to_string()).collect())
                }
                Outcome::VmError(e) => {
                    acc.count("cross.C02.vm_errors", 1);
                    acc.set_add("vm_errors", &e.chars().take(80).collect::<String>());
                    continue;
                }
                _ => {
                    acc.inconclusive("run not started");
                    continue;
                }
            };
            if got != expect_obs {
                let show = |r: &Result<Val, Vec<String>>| match r {
                    Ok(v) => format!("value {}", v.short()),
                    Err(d) => format!("panic {d:?}"),
                };
                let class = match (&got, &expect_obs) {
                    (Ok(_), Ok(_)) => "value-differs",
                    (Err(_), Err(_)) => "panic-data-differs",
                    (Ok(_), Err(_)) => "value-instead-of-panic",
                    (Err(_), Ok(_)) => "panic-instead-of-value",
                };
                acc.violation(
                    &format!("{class}:{}", cfg.name()),
                    &format!("generated program #{idx}, main({}): compiled ({}) gives {} but the source means {}", args.iter().map(show_v).collect::<Vec<_>>().join(", "), cfg.name(), show(&got), show(&expect_obs)),
                    json!({"seed": seed, "idx": idx, "k": k, "source": src}),
                );
                return;
            }
            if rec.trace.len() >= 30 {
                acc.nontrivial(fnv_str(&format!("{idx}|{k}|{}", cfg.name())));
            } else {
                acc.count("runs_shorter_than_30_steps", 1);
            }
            acc.count(if expect.is_ok() { "agreeing_values" } else { "agreeing_panics" }, 1);
        }
    }
    if idx % 25 == 0 {
        acc.sample(json!({"program": idx, "functions": program.fns.len(), "bytes": src.len(), "source_head": src.chars().take(400).collect::<String>()}));
    }
}

fn show_v(v: &V) -> String {
    match v {
        V::Int(x) | V::Felt(x) => x.to_string(),
        V::Bool(b) => b.to_string(),
        other => format!("{other:?}"),
    }
}

/// C08(b): each injected program differs from the well-typed one in exactly one statement.
fn ownership_injections(acc: &mut ShardResult, idx: u64, program: &Program, src: &str, move_sites: &[(usize, String)]) {
    let mut variants: Vec<(String, String)> = vec![];
    // Use after move: right after `let mut wK: Array<..> = <var>;` mention <var> again.
    for (_, var) in move_sites.iter().take(3) {
        let needle = format!(" = {var};");
        if let Some(pos) = src.find(&needle) {
            let line_end = pos + needle.len();
            let mut s = src.to_string();
            s.insert_str(line_end, &format!("\n    let _uam = {var}.len();"));
            variants.push(("use-after-move".into(), s));
        }
    }
    // A value of a type without Drop / Destruct that goes out of scope.
    let main_pos = src.rfind("fn main(").unwrap_or(0);
    if let Some(body) = src[main_pos..].find("{\n") {
        let at = main_pos + body + 2;
        let mut s = format!("struct NoDrop {{ x: felt252 }}\n{src}");
        let shift = "struct NoDrop { x: felt252 }\n".len();
        s.insert_str(at + shift, "    let _nd = NoDrop { x: 1 };\n");
        variants.push(("undropped-value".into(), s));
        // Moving an array twice.
        let mut s2 = src.to_string();
        s2.insert_str(at, "    let dm_a: Array<u8> = array![1];\n    let _dm_b = dm_a;\n    let _dm_c = dm_a;\n");
        variants.push(("double-move".into(), s2));
    }
    let _ = program;
    for (kind, text) in variants {
        acc.eval();
        let r = guarded(|| {
            let db = comp::build_db(&Config::DEFAULT, Plugins::Default);
            let c = comp::virtual_crate("test", &text, &comp::latest_settings(), None);
            comp::diagnostics(&db, &[c])
        });
        match r {
            Ok((diag, true)) => {
                acc.count(&format!("injection.{kind}.rejected"), 1);
                acc.nontrivial(fnv_str(&text));
                if diag.contains("was previously moved") || diag.contains("not dropped") || diag.contains("Variable") {
                    acc.count("injection.rejected_with_ownership_diagnostic", 1);
                }
            }
            Ok((_, false)) => {
                acc.violation(
                    &format!("ownership-violation-accepted:{kind}"),
                    &format!("generated program #{idx} with an injected {kind} is accepted without an error diagnostic"),
                    json!({"idx": idx, "injection": kind, "source": text}),
                );
            }
            Err((loc, msg)) => {
                acc.violation(&format!("panic:{}", panic_sig(&loc, &msg)), &format!("diagnostics of program #{idx} with an injected {kind} panicked at {loc}: {msg}"), json!({"idx": idx, "injection": kind, "source": text}));
            }
        }
    }
}

pub fn gen_worker(ctx: &mut Ctx, prop: &str) {
    install_panic_hook();
    verif::reset_counters();
    let _ = verif::take_events();
    let n: u64 = match prop {
        "C01" => ctx.tier.pick(640, 6000),
        _ => ctx.tier.pick(90, 1200),
    };
    let seed = ctx.seed;
    let tier = ctx.tier;
    let ids: Vec<u64> = (0..n).collect();
    let results: Vec<ShardResult> = ids
        .par_iter()
        .map(|i| {
            let mut acc = ShardResult::default();
            match guarded(|| {
                let mut local = ShardResult::default();
                check_program(&mut local, prop, seed, *i, tier);
                local
            }) {
                Ok(l) => acc.merge(l),
                Err((loc, msg)) => acc.harness_error(format!("harness panic on program #{i}: {loc}: {msg}")),
            }
            acc
        })
        .collect();
    for r in results {
        ctx.absorb(r);
    }
    if prop == "C08" {
        // The ownership matrix: violations in many control-flow shapes, each with a valid twin.
        let cases = crate::ownership::all_cases();
        ctx.count("matrix.cases_defined", cases.len() as u64);
        let mut rng = Rng::derive(seed, &[808]);
        let chosen = match tier {
            Tier::Quick => crate::ownership::select(&cases, &mut rng, 480),
            Tier::Thorough => (0..cases.len()).collect(),
        };
        let chunks: Vec<Vec<&crate::ownership::Case>> = chosen.chunks(chosen.len().div_ceil(16).max(1)).map(|c| c.iter().map(|i| &cases[*i]).collect()).collect();
        let results: Vec<ShardResult> = chunks
            .par_iter()
            .enumerate()
            .map(|(ci, chunk)| {
                let mut acc = ShardResult::default();
                match guarded(|| {
                    let mut local = ShardResult::default();
                    crate::ownership::run_cases(&mut local, chunk, ci as u64);
                    local
                }) {
                    Ok(l) => acc.merge(l),
                    Err((loc, msg)) => acc.harness_error(format!("harness panic in the ownership matrix: {loc}: {msg}")),
                }
                acc
            })
            .collect();
        for r in results {
            ctx.absorb(r);
        }
        ctx.sample(json!({"matrix_case": cases[chosen[0]].name, "violating_source": cases[chosen[0]].violating, "valid_twin": cases[chosen[0]].twin}));
        // Hook H2: the lowering validator after every optimization phase of every function.
        let counters = verif::counters();
        ctx.count("hook.phases_validated", counters.get("lowering.phase.applied").copied().unwrap_or(0));
        let invalid: Vec<(&'static str, String)> = verif::take_events().into_iter().filter(|(k, _)| *k == "lowering.phase.invalid").collect();
        ctx.count("hook.invalid_ir_after_phase", invalid.len() as u64);
        let mut seen = std::collections::HashSet::new();
        for (_, d) in invalid {
            let phase = d.split('|').next().unwrap_or("").trim().to_string();
            if seen.insert(phase.clone()) {
                ctx.violation(&format!("invalid-ir-after:{phase}"), &format!("the lowering validator rejects the IR after an optimization phase: {d}"), json!({"event": d}));
            }
        }
        if counters.get("lowering.phase.applied").copied().unwrap_or(0) == 0 {
            ctx.harness_error("hook H2 never fired".into());
        }
    }
}

pub fn gen_replay(prop: &str, case: &serde_json::Value) -> Result<Option<String>, String> {
    install_panic_hook();
    let mut acc = ShardResult::default();
    if let (Some(inj), Some(text)) = (case.get("injection"), case["source"].as_str()) {
        let db = comp::build_db(&Config::DEFAULT, Plugins::Default);
        let c = comp::virtual_crate("test", text, &comp::latest_settings(), None);
        let (_, has_errors) = comp::diagnostics(&db, &[c]);
        return Ok((!has_errors).then(|| format!("injected {inj} accepted")));
    }
    if let Some(src) = case.get("handwritten_source").and_then(|s| s.as_str()) {
        // A hand-written program with its meaning written next to it: `main()` without arguments,
        // the expected return cells as decimal felts.
        let want: Vec<String> = case["expected_felts"].as_array().map(|a| a.iter().filter_map(|v| v.as_str().map(|s| s.to_string())).collect()).unwrap_or_default();
        let sierra = match front_end(&Config::DEFAULT, src) {
            Ok(Ok(p)) => p,
            Ok(Err(e)) => return Err(format!("handwritten program does not compile: {e}")),
            Err((loc, msg)) => return Ok(Some(format!("compiler panicked at {loc}: {msg}"))),
        };
        let prog = Prog::new(sierra, Some(exec::metadata_config(true, Default::default())))?;
        let func = prog.runner.find_function("::main").map_err(|e| e.to_string())?.clone();
        let rec = exec::run(&prog, &func, vec![], Some(crate::execchecks::AMPLE_GAS));
        return Ok(match &rec.outcome {
            exec::Outcome::Success(cells) => {
                let got: Vec<String> = cells.iter().map(|f| f.to_bigint().to_string()).collect();
                (got != want).then(|| format!("value-differs: compiled main() returns {got:?} but the source means {want:?}"))
            }
            other => Some(format!("run did not return: {other:?}")),
        });
    }
    if case.get("matrix").is_some() {
        return crate::ownership::replay(case);
    }
    if case.get("event").is_some() {
        return Err("hook events are not replayable individually; rerun the check".into());
    }
    let seed = case["seed"].as_u64().ok_or("no seed")?;
    let idx = case["idx"].as_u64().ok_or("no idx")?;
    check_program(&mut acc, prop, seed, idx, Tier::Thorough);
    Ok(acc.violations.first().map(|v| format!("{}: {}", v.sig, v.desc)))
}
