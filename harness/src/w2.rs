//! W2: the corelib test suite compiled through the test plugin, as a workload of monitored runs.

use cairo_lang_compiler::diagnostics::DiagnosticsReporter;
use cairo_lang_filesystem::ids::CrateInput;
use cairo_lang_test_plugin::test_config::{PanicExpectation, TestExpectation};
use cairo_lang_test_plugin::{TestConfig, TestsCompilationConfig, compile_test_prepared_db};

use crate::comp::{Config, Plugins, build_db};
use crate::exec::{Outcome, Prog, metadata_config};

pub struct TestSuite {
    pub prog: Prog,
    pub tests: Vec<(String, TestConfig)>,
    pub sierra_statements: usize,
}

/// Compiles all corelib tests under `cfg`.
pub fn compile_corelib_tests(cfg: &Config) -> Result<TestSuite, String> {
    let db = build_db(cfg, Plugins::Test);
    let core = CrateInput::Real { name: "core".into(), discriminator: None };
    let mut diag = String::new();
    let compiled = compile_test_prepared_db(
        &db,
        TestsCompilationConfig {
            starknet: false,
            contract_declarations: None,
            contract_crate_ids: None,
            executable_crate_ids: None,
            add_statements_functions: false,
            add_statements_code_locations: false,
            add_functions_debug_info: false,
            add_type_names: false,
            replace_ids: true,
        },
        vec![core.clone()],
        DiagnosticsReporter::write_to_string(&mut diag).with_crates(&[core]).allow_warnings(),
    )
    .map_err(|e| format!("corelib test compilation failed: {e}\n{diag}"))?;
    let program = compiled.sierra_program.program.clone();
    let nstat = program.statements.len();
    let meta = metadata_config(cfg.linear, compiled.metadata.function_set_costs.clone());
    let prog = Prog::with_contracts(program, Some(meta), compiled.metadata.contracts_info.clone())?;
    Ok(TestSuite { prog, tests: compiled.metadata.named_tests.clone(), sierra_statements: nstat })
}

/// The verdict of a test against its own expectation: Some(true) pass, Some(false) fail, None if
/// the run did not complete.
pub fn test_verdict(cfg: &TestConfig, outcome: &Outcome) -> Option<bool> {
    match outcome {
        Outcome::Success(_) => Some(matches!(cfg.expectation, TestExpectation::Success)),
        Outcome::Panic(v) => Some(match &cfg.expectation {
            TestExpectation::Success => false,
            TestExpectation::Panics(PanicExpectation::Any) => true,
            TestExpectation::Panics(PanicExpectation::Exact(e)) => e == v,
        }),
        _ => None,
    }
}
