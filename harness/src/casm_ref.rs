//! C16: a one-step reference semantics of CASM instructions, evaluated next to the real
//! `assemble().encode()` -> cairo-vm `step_instruction` on seeded machine states.

use std::collections::BTreeMap;

use cairo_lang_casm::instructions::{
    AddApInstruction, AssertEqInstruction, Blake2sCompressInstruction, CallInstruction, Instruction,
    InstructionBody, JnzInstruction, JumpInstruction, RetInstruction,
};
use cairo_lang_casm::operand::{
    BinOpOperand, CellRef, DerefOrImmediate, Operation, Register, ResOperand,
};
use cairo_vm::types::relocatable::{MaybeRelocatable, Relocatable};
use cairo_vm::vm::vm_core::VirtualMachine;
use num_bigint::BigInt;
use num_traits::{Signed, ToPrimitive, Zero};
use serde_json::json;
use starknet_types_core::felt::Felt as Felt252;

use crate::frontend::{guarded, install_panic_hook};
use crate::report::Ctx;
use crate::rng::{Rng, fnv_str};
use crate::values::felt_prime;

#[derive(Clone, Debug, PartialEq, Eq)]
pub enum V {
    F(BigInt),
    P(isize, usize),
}

fn norm(v: &BigInt) -> BigInt {
    let p = felt_prime();
    let mut r = v % &p;
    if r.is_negative() {
        r += &p;
    }
    r
}

/// The machine state seen by the reference: registers and a sparse memory.
#[derive(Clone, Debug)]
pub struct State {
    pub pc: usize,
    pub ap: usize,
    pub fp: usize,
    /// (segment, offset) -> value.
    pub mem: BTreeMap<(isize, usize), V>,
}

#[derive(Debug, PartialEq)]
pub enum Expect {
    Ok { pc: (isize, usize), ap: usize, fp: usize, writes: Vec<((isize, usize), V)> },
    Fail(String),
    /// The reference does not model this situation (partial operands that the VM may deduce).
    Unmodelled(String),
}

const EXEC: isize = 1;

fn addr(st: &State, c: &CellRef) -> Option<(isize, usize)> {
    let base = match c.register {
        Register::AP => st.ap,
        Register::FP => st.fp,
    } as i64;
    let a = base + c.offset as i64;
    (a >= 0).then_some((EXEC, a as usize))
}

fn add_to_offset(off: usize, v: &BigInt) -> Option<usize> {
    let r = norm(&(BigInt::from(off) + v));
    r.to_u64().filter(|x| *x < (1u64 << 47)).map(|x| x as usize)
}

enum Res {
    Val(V),
    /// The operand is a single memory cell that is unset (deducible from dst).
    UnsetCell((isize, usize)),
    Fail(String),
    Unmodelled(String),
}

fn eval_res(st: &State, op: &ResOperand) -> Res {
    match op {
        ResOperand::Immediate(v) => Res::Val(V::F(norm(&v.value))),
        ResOperand::Deref(c) => {
            let Some(a) = addr(st, c) else { return Res::Fail("negative address".into()) };
            match st.mem.get(&a) {
                Some(v) => Res::Val(v.clone()),
                None => Res::UnsetCell(a),
            }
        }
        ResOperand::DoubleDeref(c, off) => {
            let Some(a) = addr(st, c) else { return Res::Fail("negative address".into()) };
            match st.mem.get(&a) {
                None => Res::Fail("op0 unknown".into()),
                Some(V::F(_)) => Res::Fail("op0 not a pointer".into()),
                Some(V::P(seg, o)) => {
                    let t = *o as i64 + *off as i64;
                    if t < 0 {
                        return Res::Fail("negative address".into());
                    }
                    let ta = (*seg, t as usize);
                    match st.mem.get(&ta) {
                        Some(v) => Res::Val(v.clone()),
                        None => Res::UnsetCell(ta),
                    }
                }
            }
        }
        ResOperand::BinOp(BinOpOperand { op, a, b }) => {
            let Some(aa) = addr(st, a) else { return Res::Fail("negative address".into()) };
            let av = st.mem.get(&aa).cloned();
            let bv = match b {
                DerefOrImmediate::Immediate(v) => Some(V::F(norm(&v.value))),
                DerefOrImmediate::Deref(c) => {
                    let Some(ba) = addr(st, c) else { return Res::Fail("negative address".into()) };
                    st.mem.get(&ba).cloned()
                }
            };
            let (Some(av), Some(bv)) = (av, bv) else {
                return Res::Unmodelled("binop with an unknown operand".into());
            };
            match (op, av, bv) {
                (Operation::Add, V::F(x), V::F(y)) => Res::Val(V::F(norm(&(x + y)))),
                (Operation::Add, V::P(s, o), V::F(y)) | (Operation::Add, V::F(y), V::P(s, o)) => {
                    match add_to_offset(o, &y) {
                        Some(n) => Res::Val(V::P(s, n)),
                        None => Res::Unmodelled("pointer offset leaves the address range".into()),
                    }
                }
                (Operation::Add, V::P(..), V::P(..)) => Res::Fail("pointer + pointer".into()),
                (Operation::Mul, V::F(x), V::F(y)) => Res::Val(V::F(norm(&(x * y)))),
                (Operation::Mul, _, _) => Res::Fail("pointer in multiplication".into()),
            }
        }
    }
}

const M31: u64 = (1 << 31) - 1;

/// Unpacks a felt holding a QM31 element: four coordinates of 36 bits each, every one below the
/// Mersenne prime 2^31 - 1, nothing above bit 144.
pub fn qm31_unpack(x: &BigInt) -> Option<[u64; 4]> {
    if x.is_negative() || x.bits() > 144 {
        return None;
    }
    let mask = (BigInt::from(1) << 36) - 1;
    let mut c = [0u64; 4];
    for (k, ck) in c.iter_mut().enumerate() {
        *ck = ((x >> (36 * k)) & &mask).to_u64()?;
        if *ck >= M31 {
            return None;
        }
    }
    Some(c)
}

pub fn qm31_pack(c: &[u64; 4]) -> BigInt {
    let mut r = BigInt::from(0);
    for (k, ck) in c.iter().enumerate() {
        r += BigInt::from(*ck) << (36 * k);
    }
    r
}

/// (a + bi) * (c + di) in CM31 = F_p[i] / (i^2 + 1).
fn cm31_mul(x: (u64, u64), y: (u64, u64)) -> (u64, u64) {
    let re = (x.0 * y.0 % M31 + M31 - x.1 * y.1 % M31) % M31;
    let im = (x.0 * y.1 % M31 + x.1 * y.0 % M31) % M31;
    (re, im)
}

/// QM31 = CM31[u] / (u^2 - 2 - i); an element is (c0 + c1 i) + (c2 + c3 i) u.
pub fn qm31_op(op: &Operation, x: &[u64; 4], y: &[u64; 4]) -> [u64; 4] {
    match op {
        Operation::Add => [(x[0] + y[0]) % M31, (x[1] + y[1]) % M31, (x[2] + y[2]) % M31, (x[3] + y[3]) % M31],
        Operation::Mul => {
            let (a, b) = ((x[0], x[1]), (x[2], x[3]));
            let (c, d) = ((y[0], y[1]), (y[2], y[3]));
            let ac = cm31_mul(a, c);
            let bd = cm31_mul(b, d);
            let bd_r = cm31_mul(bd, (2, 1));
            let ad = cm31_mul(a, d);
            let bc = cm31_mul(b, c);
            [(ac.0 + bd_r.0) % M31, (ac.1 + bd_r.1) % M31, (ad.0 + bc.0) % M31, (ad.1 + bc.1) % M31]
        }
    }
}

/// The right-hand side of a `{QM31}` assert: both operands known packed elements.
fn eval_qm31(st: &State, bin: &BinOpOperand) -> Res {
    let Some(aa) = addr(st, &bin.a) else { return Res::Fail("negative address".into()) };
    let av = st.mem.get(&aa).cloned();
    let bv = match &bin.b {
        DerefOrImmediate::Immediate(v) => Some(V::F(norm(&v.value))),
        DerefOrImmediate::Deref(c) => {
            let Some(ba) = addr(st, c) else { return Res::Fail("negative address".into()) };
            st.mem.get(&ba).cloned()
        }
    };
    let (Some(av), Some(bv)) = (av, bv) else {
        return Res::Unmodelled("binop with an unknown operand".into());
    };
    match (av, bv) {
        (V::F(x), V::F(y)) => match (qm31_unpack(&x), qm31_unpack(&y)) {
            (Some(x), Some(y)) => Res::Val(V::F(qm31_pack(&qm31_op(&bin.op, &x, &y)))),
            _ => Res::Fail("operand is not a packed QM31 element".into()),
        },
        _ => Res::Fail("pointer in a QM31 operation".into()),
    }
}

fn eval_doi(st: &State, t: &DerefOrImmediate) -> Res {
    match t {
        DerefOrImmediate::Immediate(v) => Res::Val(V::F(norm(&v.value))),
        DerefOrImmediate::Deref(c) => eval_res(st, &ResOperand::Deref(*c)),
    }
}

/// What the instruction denotes, applied to `st`.
pub fn reference_step(ins: &Instruction, st: &State) -> Expect {
    let size = ins.body.op_size();
    let next_pc = (0isize, st.pc + size);
    let inc = if ins.inc_ap { 1 } else { 0 };
    match &ins.body {
        InstructionBody::AssertEq(AssertEqInstruction { a, b }) | InstructionBody::QM31AssertEq(AssertEqInstruction { a, b }) => {
            let Some(da) = addr(st, a) else { return Expect::Fail("negative address".into()) };
            let dst = st.mem.get(&da).cloned();
            let res = if matches!(ins.body, InstructionBody::QM31AssertEq(_)) {
                match b {
                    ResOperand::BinOp(bin) => eval_qm31(st, bin),
                    // Without an operation the extension has nothing to act on; the toolchain
                    // emits the QM31 form for additions and multiplications only.
                    _ => return Expect::Unmodelled("QM31 extension without an operation".into()),
                }
            } else {
                eval_res(st, b)
            };
            match res {
                Res::Fail(e) => Expect::Fail(e),
                Res::Unmodelled(e) => Expect::Unmodelled(e),
                Res::Val(v) => match dst {
                    None => Expect::Ok { pc: next_pc, ap: st.ap + inc, fp: st.fp, writes: vec![(da, v)] },
                    Some(d) if d == v => Expect::Ok { pc: next_pc, ap: st.ap + inc, fp: st.fp, writes: vec![] },
                    Some(_) => Expect::Fail("assert_eq of different values".into()),
                },
                Res::UnsetCell(c) => match dst {
                    None => Expect::Fail("both sides unknown".into()),
                    Some(d) => {
                        if c == da {
                            return Expect::Unmodelled("aliasing".into());
                        }
                        Expect::Ok { pc: next_pc, ap: st.ap + inc, fp: st.fp, writes: vec![(c, d)] }
                    }
                },
            }
        }
        InstructionBody::AddAp(AddApInstruction { operand }) => match eval_res(st, operand) {
            Res::Fail(e) => Expect::Fail(e),
            Res::Unmodelled(e) => Expect::Unmodelled(e),
            Res::UnsetCell(_) => Expect::Fail("operand unknown".into()),
            Res::Val(V::P(..)) => Expect::Fail("ap += pointer".into()),
            Res::Val(V::F(x)) => match add_to_offset(st.ap, &x) {
                Some(n) => Expect::Ok { pc: next_pc, ap: n, fp: st.fp, writes: vec![] },
                None => Expect::Unmodelled("ap leaves the address range".into()),
            },
        },
        InstructionBody::Jump(JumpInstruction { target, relative }) => match eval_doi(st, target) {
            Res::Fail(e) => Expect::Fail(e),
            Res::Unmodelled(e) => Expect::Unmodelled(e),
            Res::UnsetCell(_) => Expect::Fail("target unknown".into()),
            Res::Val(v) => {
                let pc = match (relative, v) {
                    (true, V::F(x)) => match add_to_offset(st.pc, &x) {
                        Some(n) => (0, n),
                        None => return Expect::Unmodelled("pc leaves the address range".into()),
                    },
                    (true, V::P(..)) => return Expect::Fail("jmp rel pointer".into()),
                    (false, V::P(s, o)) => (s, o),
                    (false, V::F(_)) => return Expect::Fail("jmp abs to a felt".into()),
                };
                Expect::Ok { pc, ap: st.ap + inc, fp: st.fp, writes: vec![] }
            }
        },
        InstructionBody::Jnz(JnzInstruction { jump_offset, condition }) => {
            let Some(ca) = addr(st, condition) else { return Expect::Fail("negative address".into()) };
            let Some(cv) = st.mem.get(&ca) else { return Expect::Fail("condition unknown".into()) };
            let taken = match cv {
                V::F(x) => !x.is_zero(),
                V::P(..) => true,
            };
            // The VM computes op1 in both cases.
            let off = match eval_doi(st, jump_offset) {
                Res::Fail(e) => return Expect::Fail(e),
                Res::Unmodelled(e) => return Expect::Unmodelled(e),
                Res::UnsetCell(_) => return Expect::Fail("offset unknown".into()),
                Res::Val(v) => v,
            };
            if !taken {
                return Expect::Ok { pc: next_pc, ap: st.ap + inc, fp: st.fp, writes: vec![] };
            }
            match off {
                V::F(x) => match add_to_offset(st.pc, &x) {
                    Some(n) => Expect::Ok { pc: (0, n), ap: st.ap + inc, fp: st.fp, writes: vec![] },
                    None => Expect::Unmodelled("pc leaves the address range".into()),
                },
                V::P(..) => Expect::Fail("jnz by a pointer".into()),
            }
        }
        InstructionBody::Call(CallInstruction { target, relative }) => {
            let v = match eval_doi(st, target) {
                Res::Fail(e) => return Expect::Fail(e),
                Res::Unmodelled(e) => return Expect::Unmodelled(e),
                Res::UnsetCell(_) => return Expect::Fail("target unknown".into()),
                Res::Val(v) => v,
            };
            let pc = match (relative, v) {
                (true, V::F(x)) => match add_to_offset(st.pc, &x) {
                    Some(n) => (0, n),
                    None => return Expect::Unmodelled("pc leaves the address range".into()),
                },
                (true, V::P(..)) => return Expect::Fail("call rel pointer".into()),
                (false, V::P(s, o)) => (s, o),
                (false, V::F(_)) => return Expect::Fail("call abs to a felt".into()),
            };
            let mut writes = vec![];
            for (a, v) in [((EXEC, st.ap), V::P(EXEC, st.fp)), ((EXEC, st.ap + 1), V::P(0, st.pc + size))] {
                match st.mem.get(&a) {
                    None => writes.push((a, v)),
                    Some(x) if *x == v => {}
                    Some(_) => return Expect::Fail("call frame cells hold other values".into()),
                }
            }
            Expect::Ok { pc, ap: st.ap + 2, fp: st.ap + 2, writes }
        }
        InstructionBody::Ret(RetInstruction {}) => {
            if st.fp < 2 {
                return Expect::Fail("negative address".into());
            }
            let (Some(new_fp), Some(new_pc)) =
                (st.mem.get(&(EXEC, st.fp - 2)), st.mem.get(&(EXEC, st.fp - 1)))
            else {
                return Expect::Fail("return frame unknown".into());
            };
            match (new_fp, new_pc) {
                (V::P(EXEC, f), V::P(s, o)) => Expect::Ok { pc: (*s, *o), ap: st.ap, fp: *f, writes: vec![] },
                (V::P(..), V::P(..)) => Expect::Unmodelled("fp restored from another segment".into()),
                (V::F(_), _) => Expect::Unmodelled("fp restored from a felt".into()),
                (_, V::F(_)) => Expect::Fail("return to a felt".into()),
            }
        }
        InstructionBody::Blake2sCompress(i) => {
            // blake2s[state, message, byte_count, finalize] => [ap]; ap++ is part of the instruction.
            let u32_at = |a: (isize, usize)| -> Result<u32, String> {
                match st.mem.get(&a) {
                    Some(V::F(x)) => x.to_u32().ok_or_else(|| "word does not fit 32 bits".to_string()),
                    Some(V::P(..)) => Err("word is a pointer".into()),
                    None => Err("word unknown".into()),
                }
            };
            let ptr_at = |a: (isize, usize)| -> Result<(isize, usize), String> {
                match st.mem.get(&a) {
                    Some(V::P(s, o)) => Ok((*s, *o)),
                    Some(V::F(_)) => Err("pointer operand is a felt".into()),
                    None => Err("pointer operand unknown".into()),
                }
            };
            let run = || -> Result<Vec<((isize, usize), V)>, String> {
                let count_a = addr(st, &i.byte_count).ok_or("negative address")?;
                let state_a = addr(st, &i.state).ok_or("negative address")?;
                let msg_a = addr(st, &i.message).ok_or("negative address")?;
                // All three operand cells must be known before anything else.
                for a in [count_a, state_a, msg_a] {
                    if !st.mem.contains_key(&a) {
                        return Err("operand unknown".into());
                    }
                }
                let counter = u32_at(count_a)?;
                let sp = ptr_at(state_a)?;
                let mut h = [0u32; 8];
                for (k, w) in h.iter_mut().enumerate() {
                    *w = u32_at((sp.0, sp.1 + k))?;
                }
                let mp = ptr_at(msg_a)?;
                let mut m = [0u32; 16];
                for (k, w) in m.iter_mut().enumerate() {
                    *w = u32_at((mp.0, mp.1 + k))?;
                }
                let out = ptr_at((EXEC, st.ap))?;
                let new = blake2s_compress_ref(&h, &m, counter, if i.finalize { 0xffff_ffff } else { 0 });
                let mut writes = vec![];
                for (k, w) in new.iter().enumerate() {
                    let a = (out.0, out.1 + k);
                    let v = V::F(BigInt::from(*w));
                    match st.mem.get(&a) {
                        Some(old) if *old != v => return Err("output cell already holds another value".into()),
                        _ => writes.push((a, v)),
                    }
                }
                Ok(writes)
            };
            match run() {
                Ok(writes) => Expect::Ok { pc: next_pc, ap: st.ap + 1, fp: st.fp, writes },
                Err(e) => Expect::Fail(e),
            }
        }
    }
}

/// BLAKE2s compression function F (RFC 7693, section 3.2) with t = (t0, 0), f = (f0, 0); written
/// from the RFC, independent of the VM's implementation.
pub fn blake2s_compress_ref(h: &[u32; 8], m: &[u32; 16], t0: u32, f0: u32) -> [u32; 8] {
    const IV: [u32; 8] = [0x6A09E667, 0xBB67AE85, 0x3C6EF372, 0xA54FF53A, 0x510E527F, 0x9B05688C, 0x1F83D9AB, 0x5BE0CD19];
    const SIGMA: [[usize; 16]; 10] = [
        [0, 1, 2, 3, 4, 5, 6, 7, 8, 9, 10, 11, 12, 13, 14, 15],
        [14, 10, 4, 8, 9, 15, 13, 6, 1, 12, 0, 2, 11, 7, 5, 3],
        [11, 8, 12, 0, 5, 2, 15, 13, 10, 14, 3, 6, 7, 1, 9, 4],
        [7, 9, 3, 1, 13, 12, 11, 14, 2, 6, 5, 10, 4, 0, 15, 8],
        [9, 0, 5, 7, 2, 4, 10, 15, 14, 1, 11, 12, 6, 8, 3, 13],
        [2, 12, 6, 10, 0, 11, 8, 3, 4, 13, 7, 5, 15, 14, 1, 9],
        [12, 5, 1, 15, 14, 13, 4, 10, 0, 7, 6, 3, 9, 2, 8, 11],
        [13, 11, 7, 14, 12, 1, 3, 9, 5, 0, 15, 4, 8, 6, 2, 10],
        [6, 15, 14, 9, 11, 3, 0, 8, 12, 2, 13, 7, 1, 4, 10, 5],
        [10, 2, 8, 4, 7, 6, 1, 5, 15, 11, 9, 14, 3, 12, 13, 0],
    ];
    let mut v = [0u32; 16];
    v[..8].copy_from_slice(h);
    v[8..].copy_from_slice(&IV);
    v[12] ^= t0;
    v[14] ^= f0;
    fn g(v: &mut [u32; 16], a: usize, b: usize, c: usize, d: usize, x: u32, y: u32) {
        v[a] = v[a].wrapping_add(v[b]).wrapping_add(x);
        v[d] = (v[d] ^ v[a]).rotate_right(16);
        v[c] = v[c].wrapping_add(v[d]);
        v[b] = (v[b] ^ v[c]).rotate_right(12);
        v[a] = v[a].wrapping_add(v[b]).wrapping_add(y);
        v[d] = (v[d] ^ v[a]).rotate_right(8);
        v[c] = v[c].wrapping_add(v[d]);
        v[b] = (v[b] ^ v[c]).rotate_right(7);
    }
    for s in SIGMA.iter() {
        g(&mut v, 0, 4, 8, 12, m[s[0]], m[s[1]]);
        g(&mut v, 1, 5, 9, 13, m[s[2]], m[s[3]]);
        g(&mut v, 2, 6, 10, 14, m[s[4]], m[s[5]]);
        g(&mut v, 3, 7, 11, 15, m[s[6]], m[s[7]]);
        g(&mut v, 0, 5, 10, 15, m[s[8]], m[s[9]]);
        g(&mut v, 1, 6, 11, 12, m[s[10]], m[s[11]]);
        g(&mut v, 2, 7, 8, 13, m[s[12]], m[s[13]]);
        g(&mut v, 3, 4, 9, 14, m[s[14]], m[s[15]]);
    }
    let mut out = [0u32; 8];
    for i in 0..8 {
        out[i] = h[i] ^ v[i] ^ v[i + 8];
    }
    out
}

// ---------------------------------------------------------------------------------------------
// Real side.

fn to_vm(v: &V) -> MaybeRelocatable {
    match v {
        V::F(x) => MaybeRelocatable::Int(Felt252::from(x.clone())),
        V::P(s, o) => MaybeRelocatable::RelocatableValue(Relocatable::from((*s, *o))),
    }
}

fn from_vm(v: &MaybeRelocatable) -> V {
    match v {
        MaybeRelocatable::Int(f) => V::F(f.to_bigint()),
        MaybeRelocatable::RelocatableValue(r) => V::P(r.segment_index, r.offset),
    }
}

pub enum Real {
    Ok { pc: (isize, usize), ap: usize, fp: usize, mem: BTreeMap<(isize, usize), V> },
    Fail(String),
}

/// Encodes `ins`, loads it at `st.pc` of a fresh VM with `st`'s registers and memory, steps once.
pub fn real_step(ins: &Instruction, st: &State, watch: &[(isize, usize)]) -> Result<Real, String> {
    let words = ins.assemble().encode();
    let mut vm = VirtualMachine::new(false, false);
    for _ in 0..4 {
        vm.add_memory_segment();
    }
    for (i, w) in words.iter().enumerate() {
        vm.insert_value(Relocatable::from((0, st.pc + i)), Felt252::from(w.clone()))
            .map_err(|e| format!("loading word: {e}"))?;
    }
    for ((s, o), v) in &st.mem {
        vm.insert_value(Relocatable::from((*s, *o)), to_vm(v)).map_err(|e| format!("seeding: {e}"))?;
    }
    vm.set_pc(Relocatable::from((0, st.pc)));
    vm.set_ap(st.ap);
    vm.set_fp(st.fp);
    match vm.step_instruction() {
        Err(e) => Ok(Real::Fail(format!("{e}"))),
        Ok(()) => {
            let mut mem = BTreeMap::new();
            for a in watch {
                if let Some(v) = vm.get_maybe(&Relocatable::from((a.0, a.1))) {
                    mem.insert(*a, from_vm(&v));
                }
            }
            let pc = vm.get_pc();
            Ok(Real::Ok {
                pc: (pc.segment_index, pc.offset),
                ap: vm.get_ap().offset,
                fp: vm.get_fp().offset,
                mem,
            })
        }
    }
}

// ---------------------------------------------------------------------------------------------
// Workload.

const OFFSETS: &[i16] = &[-32768, -32767, -2, -1, 0, 1, 2, 32766, 32767];

fn immediates(rng: &mut Rng) -> BigInt {
    let p = felt_prime();
    match rng.below(14) {
        0 => BigInt::from(0),
        1 => BigInt::from(1),
        2 => BigInt::from(-1),
        3 => BigInt::from(1) << 15,
        4 => BigInt::from(1) << 16,
        5 => BigInt::from(1) << 64,
        6 => BigInt::from(1) << 128,
        7 => &p - 1,
        8 => &p - (BigInt::from(1) << 16),
        9 => BigInt::from(2),
        10 => BigInt::from(-(rng.below(1000) as i64)),
        11 => BigInt::from(rng.below(1000)),
        12 => -(BigInt::from(1) << 200usize),
        _ => {
            let mut r = BigInt::from(0);
            for _ in 0..4 {
                r = (r << 64) + BigInt::from(rng.next_u64());
            }
            r % &p
        }
    }
}

fn cell(reg: usize, rng: &mut Rng) -> CellRef {
    CellRef {
        register: if reg == 0 { Register::AP } else { Register::FP },
        offset: if rng.chance(1, 4) { rng.range(-40, 40) as i16 } else { *rng.pick(OFFSETS) },
    }
}

/// All instruction shapes: (body kind, operand form, registers, inc_ap) - enumerated completely.
/// Returns a builder that fills in offsets and immediates from the RNG.
pub fn shapes() -> Vec<(String, Box<dyn Fn(&mut Rng) -> Instruction + Send + Sync>)> {
    let mut out: Vec<(String, Box<dyn Fn(&mut Rng) -> Instruction + Send + Sync>)> = vec![];
    let regs = ["ap", "fp"];
    // Res operand forms: deref(r), double(r), imm, binop(op, r, deref r2 | imm).
    let mut res_forms: Vec<(String, Box<dyn Fn(&mut Rng) -> ResOperand + Send + Sync>)> = vec![];
    for r in 0..2 {
        res_forms.push((format!("deref-{}", regs[r]), Box::new(move |g| ResOperand::Deref(cell(r, g)))));
        res_forms.push((
            format!("dderef-{}", regs[r]),
            Box::new(move |g| {
                let c = cell(r, g);
                let off = if g.chance(1, 4) { g.range(-40, 40) as i16 } else { *g.pick(OFFSETS) };
                ResOperand::DoubleDeref(c, off)
            }),
        ));
    }
    res_forms.push(("imm".into(), Box::new(|g| ResOperand::Immediate(immediates(g).into()))));
    for oi in 0..2usize {
        let on = ["add", "mul"][oi];
        let mk = move || if oi == 0 { Operation::Add } else { Operation::Mul };
        for r in 0..2 {
            for r2 in 0..2 {
                res_forms.push((
                    format!("binop-{on}-{}-deref-{}", regs[r], regs[r2]),
                    Box::new(move |g| {
                        ResOperand::BinOp(BinOpOperand {
                            op: mk(),
                            a: cell(r, g),
                            b: DerefOrImmediate::Deref(cell(r2, g)),
                        })
                    }),
                ));
            }
            res_forms.push((
                format!("binop-{on}-{}-imm", regs[r]),
                Box::new(move |g| {
                    ResOperand::BinOp(BinOpOperand {
                        op: mk(),
                        a: cell(r, g),
                        b: DerefOrImmediate::Immediate(immediates(g).into()),
                    })
                }),
            ));
        }
    }
    let res_forms = std::sync::Arc::new(res_forms);
    for fi in 0..res_forms.len() {
        for r in 0..2 {
            for inc in [false, true] {
                let rf = res_forms.clone();
                out.push((
                    format!("assert_eq dst-{} {}{}", regs[r], res_forms[fi].0, if inc { " ap++" } else { "" }),
                    Box::new(move |g| {
                        Instruction::new(
                            InstructionBody::AssertEq(AssertEqInstruction { a: cell(r, g), b: (rf[fi].1)(g) }),
                            inc,
                        )
                    }),
                ));
            }
        }
        let rf = res_forms.clone();
        out.push((
            format!("add_ap {}", res_forms[fi].0),
            Box::new(move |g| {
                Instruction::new(InstructionBody::AddAp(AddApInstruction { operand: (rf[fi].1)(g) }), false)
            }),
        ));
    }
    for imm in [false, true] {
        for r in 0..2 {
            if imm && r == 1 {
                continue;
            }
            let tname = if imm { "imm".to_string() } else { format!("deref-{}", regs[r]) };
            for relative in [false, true] {
                for inc in [false, true] {
                    out.push((
                        format!("jmp {} {tname}{}", if relative { "rel" } else { "abs" }, if inc { " ap++" } else { "" }),
                        Box::new(move |g| {
                            let target = if imm {
                                DerefOrImmediate::Immediate(immediates(g).into())
                            } else {
                                DerefOrImmediate::Deref(cell(r, g))
                            };
                            Instruction::new(InstructionBody::Jump(JumpInstruction { target, relative }), inc)
                        }),
                    ));
                }
                out.push((
                    format!("call {} {tname}", if relative { "rel" } else { "abs" }),
                    Box::new(move |g| {
                        let target = if imm {
                            DerefOrImmediate::Immediate(immediates(g).into())
                        } else {
                            DerefOrImmediate::Deref(cell(r, g))
                        };
                        Instruction::new(InstructionBody::Call(CallInstruction { target, relative }), false)
                    }),
                ));
            }
            for cr in 0..2 {
                for inc in [false, true] {
                    out.push((
                        format!("jnz {tname} cond-{}{}", regs[cr], if inc { " ap++" } else { "" }),
                        Box::new(move |g| {
                            let jump_offset = if imm {
                                DerefOrImmediate::Immediate(immediates(g).into())
                            } else {
                                DerefOrImmediate::Deref(cell(r, g))
                            };
                            Instruction::new(
                                InstructionBody::Jnz(JnzInstruction { jump_offset, condition: cell(cr, g) }),
                                inc,
                            )
                        }),
                    ));
                }
            }
        }
    }
    out.push(("ret".into(), Box::new(|_| Instruction::new(InstructionBody::Ret(RetInstruction {}), false))));
    // {QM31} dst = a op b: every register combination, b a cell or an immediate.
    for dr in 0..2 {
        for oi in 0..2usize {
            for ar in 0..2 {
                for br in 0..3 {
                    for inc in [false, true] {
                        out.push((
                            format!("qm31 dst-{} {}-{}-{}{}", regs[dr], ["add", "mul"][oi], regs[ar], if br == 2 { "imm".to_string() } else { format!("deref-{}", regs[br]) }, if inc { " ap++" } else { "" }),
                            Box::new(move |g| {
                                let b = if br == 2 { DerefOrImmediate::Immediate(random_qm31(g).into()) } else { DerefOrImmediate::Deref(cell(br, g)) };
                                Instruction::new(
                                    InstructionBody::QM31AssertEq(AssertEqInstruction {
                                        a: cell(dr, g),
                                        b: ResOperand::BinOp(BinOpOperand { op: if oi == 0 { Operation::Add } else { Operation::Mul }, a: cell(ar, g), b }),
                                    }),
                                    inc,
                                )
                            }),
                        ));
                    }
                }
            }
        }
    }
    // blake2s: every register combination of the three operands, with and without finalize
    // (ap++ is mandatory for this instruction).
    for rs in 0..2 {
        for rc in 0..2 {
            for rm in 0..2 {
                for finalize in [false, true] {
                    out.push((
                        format!("blake2s state-{} count-{} message-{}{}", regs[rs], regs[rc], regs[rm], if finalize { " finalize" } else { "" }),
                        Box::new(move |g| {
                            // Small offsets mostly, so that the operand cells are distinct from
                            // each other and from [ap]; extreme ones sometimes.
                            let mut c = |r: usize, g: &mut Rng| CellRef {
                                register: if r == 0 { Register::AP } else { Register::FP },
                                offset: if g.chance(1, 5) { *g.pick(OFFSETS) } else { g.range(-30, -1) as i16 },
                            };
                            Instruction::new(
                                InstructionBody::Blake2sCompress(Blake2sCompressInstruction { state: c(rs, g), byte_count: c(rc, g), message: c(rm, g), finalize }),
                                true,
                            )
                        }),
                    ));
                }
            }
        }
    }
    out
}

/// Cells the instruction may read or write in `st` (exec segment addresses).
fn touched_cells(ins: &Instruction, st: &State) -> Vec<(isize, usize)> {
    let mut v = vec![];
    let mut add = |c: &CellRef| {
        if let Some(a) = addr(st, c) {
            v.push(a);
        }
    };
    let res = |op: &ResOperand, add: &mut dyn FnMut(&CellRef)| match op {
        ResOperand::Deref(c) => add(c),
        ResOperand::DoubleDeref(c, _) => add(c),
        ResOperand::Immediate(_) => {}
        ResOperand::BinOp(b) => {
            add(&b.a);
            if let DerefOrImmediate::Deref(c) = &b.b {
                add(c);
            }
        }
    };
    match &ins.body {
        InstructionBody::AssertEq(i) | InstructionBody::QM31AssertEq(i) => {
            add(&i.a);
            res(&i.b, &mut add);
        }
        InstructionBody::AddAp(i) => res(&i.operand, &mut add),
        InstructionBody::Jump(i) => {
            if let DerefOrImmediate::Deref(c) = &i.target {
                add(c)
            }
        }
        InstructionBody::Call(i) => {
            if let DerefOrImmediate::Deref(c) = &i.target {
                add(c)
            }
        }
        InstructionBody::Jnz(i) => {
            add(&i.condition);
            if let DerefOrImmediate::Deref(c) = &i.jump_offset {
                add(c)
            }
        }
        InstructionBody::Ret(_) => {}
        InstructionBody::Blake2sCompress(i) => {
            add(&i.byte_count);
            add(&i.state);
            add(&i.message);
        }
    }
    v
}

/// A packed QM31 element (rarely an invalid packing: a coordinate equal to the prime, or bits
/// above the fourth coordinate).
fn random_qm31(rng: &mut Rng) -> BigInt {
    let mut c = [0u64; 4];
    for ck in c.iter_mut() {
        *ck = match rng.below(6) {
            0 => 0,
            1 => 1,
            2 => M31 - 1,
            _ => rng.next_u64() % M31,
        };
    }
    let mut v = qm31_pack(&c);
    match rng.below(40) {
        0 => v += BigInt::from(M31 - c[rng.below(4)]) << 0,
        1 => v += BigInt::from(1) << 144,
        2 => v = qm31_pack(&[M31, c[1], c[2], c[3]]),
        _ => {}
    }
    v
}

fn random_value(rng: &mut Rng, want_pointer: u32) -> V {
    if rng.chance(want_pointer, 10) {
        V::P(if rng.chance(1, 3) { EXEC } else { 2 }, 40_000 + rng.below(2000))
    } else {
        match rng.below(6) {
            0 => V::F(BigInt::from(0)),
            1 => V::F(BigInt::from(1)),
            2 => V::F(BigInt::from(rng.below(64))),
            3 => V::F(felt_prime() - 1 - rng.below(40)),
            _ => V::F(norm(&immediates(rng))),
        }
    }
}

/// A random state tailored to the instruction: registers at distinct bases, touched cells seeded
/// (some deliberately left unset), pointer targets seeded.
pub fn random_state(ins: &Instruction, rng: &mut Rng) -> State {
    let mut st = State {
        pc: 50_000 + rng.below(1000),
        ap: 40_000 + rng.below(500),
        fp: 40_600 + rng.below(500),
        mem: BTreeMap::new(),
    };
    // A frame as every reachable state has one: [fp - 2] holds the caller's fp and [fp - 1] the
    // return pc. The VM reads [fp - 1] as the (unused) op0 / dst of instructions that have none,
    // so these cells are part of the machine state even when the instruction does not mention them.
    if !matches!(ins.body, InstructionBody::Ret(_)) {
        st.mem.insert((EXEC, st.fp - 2), V::P(EXEC, 39_000 + rng.below(500)));
        st.mem.insert((EXEC, st.fp - 1), V::P(0, 60_000 + rng.below(3000)));
    }
    let frame = [(EXEC, st.fp - 2), (EXEC, st.fp - 1)];
    let cells: Vec<_> = touched_cells(ins, &st).into_iter().filter(|c| !frame.contains(c)).collect();
    let dst = match &ins.body {
        InstructionBody::AssertEq(i) => addr(&st, &i.a),
        _ => None,
    };
    let want_pointer = match &ins.body {
        InstructionBody::Jump(j) if !j.relative => 8,
        InstructionBody::Call(c) if !c.relative => 8,
        _ => 1,
    };
    for c in &cells {
        // The destination is left unset in a third of the states (assert-as-assignment).
        if Some(*c) == dst && rng.chance(1, 3) {
            continue;
        }
        if rng.chance(1, 12) {
            continue;
        }
        st.mem.insert(*c, random_value(rng, want_pointer));
    }
    // Double deref: make the base cell a pointer most of the time and seed its target.
    let mut dd = |c: &CellRef, off: i16, st: &mut State, rng: &mut Rng| {
        if let Some(a) = addr(st, c) {
            if rng.chance(9, 10) {
                let p = V::P(2, 40_000 + rng.below(2000));
                st.mem.insert(a, p);
            }
            if let Some(V::P(s, o)) = st.mem.get(&a).cloned() {
                let t = o as i64 + off as i64;
                if t >= 0 && rng.chance(9, 10) {
                    st.mem.insert((s, t as usize), random_value(rng, 1));
                }
            }
        }
    };
    match &ins.body {
        InstructionBody::AssertEq(AssertEqInstruction { b: ResOperand::DoubleDeref(c, off), .. }) => {
            dd(c, *off, &mut st, rng)
        }
        InstructionBody::AddAp(AddApInstruction { operand: ResOperand::DoubleDeref(c, off) }) => {
            dd(c, *off, &mut st, rng)
        }
        _ => {}
    }
    // Make assert_eq succeed half of the time when everything is known.
    if let InstructionBody::AssertEq(i) = &ins.body {
        if let (Some(da), Res::Val(v)) = (addr(&st, &i.a), eval_res(&st, &i.b)) {
            if st.mem.contains_key(&da) && rng.bool() && !touched_cells(ins, &st)[1..].contains(&da) {
                st.mem.insert(da, v);
            }
        }
    }
    if let InstructionBody::AddAp(i) = &ins.body {
        // Keep most ap increments small.
        if let ResOperand::Deref(c) = &i.operand {
            if let Some(a) = addr(&st, c) {
                if rng.chance(3, 4) {
                    st.mem.insert(a, V::F(BigInt::from(rng.below(1000))));
                }
            }
        }
    }
    if matches!(ins.body, InstructionBody::Ret(_)) {
        if rng.chance(9, 10) {
            st.mem.insert((EXEC, st.fp - 2), V::P(EXEC, 40_000 + rng.below(3000)));
        } else if rng.bool() {
            st.mem.insert((EXEC, st.fp - 2), random_value(rng, 5));
        }
        if rng.chance(9, 10) {
            st.mem.insert((EXEC, st.fp - 1), V::P(0, 60_000 + rng.below(3000)));
        } else if rng.bool() {
            st.mem.insert((EXEC, st.fp - 1), random_value(rng, 5));
        }
    }
    if let InstructionBody::QM31AssertEq(i) = &ins.body {
        // Operand cells hold packed elements most of the time.
        for c in touched_cells(ins, &st) {
            if frame.contains(&c) || !st.mem.contains_key(&c) {
                continue;
            }
            if rng.chance(9, 10) {
                st.mem.insert(c, V::F(random_qm31(rng)));
            }
        }
        if let (Some(da), ResOperand::BinOp(bin)) = (addr(&st, &i.a), &i.b) {
            if let Res::Val(v) = eval_qm31(&st, bin) {
                if st.mem.contains_key(&da) && rng.bool() && !touched_cells(ins, &st)[1..].contains(&da) {
                    st.mem.insert(da, v);
                }
            }
        }
    }
    if let InstructionBody::Blake2sCompress(i) = &ins.body {
        let word = |rng: &mut Rng| -> V {
            V::F(match rng.below(8) {
                0 => BigInt::from(0),
                1 => BigInt::from(u32::MAX),
                // Rarely: not a 32-bit word.
                2 if rng.chance(1, 6) => BigInt::from(1u64 << 32),
                _ => BigInt::from(rng.next_u64() as u32),
            })
        };
        // Output pointer at [ap].
        if rng.chance(19, 20) {
            st.mem.insert((EXEC, st.ap), V::P(3, 40_000 + rng.below(2000)));
        } else if rng.bool() {
            st.mem.insert((EXEC, st.ap), random_value(rng, 1));
        } else {
            st.mem.remove(&(EXEC, st.ap));
        }
        // Operand cells, in an order that makes aliasing cells end up in any of the roles.
        let mut roles = [0usize, 1, 2];
        for k in (1..3).rev() {
            roles.swap(k, rng.below(k + 1));
        }
        for role in roles {
            match role {
                0 => {
                    if let Some(a) = addr(&st, &i.byte_count) {
                        if rng.chance(19, 20) {
                            st.mem.insert(a, word(rng));
                        }
                    }
                }
                r => {
                    let (c, n) = if r == 1 { (&i.state, 8) } else { (&i.message, 16) };
                    if let Some(a) = addr(&st, c) {
                        if rng.chance(19, 20) {
                            let base = 42_000 + rng.below(3000);
                            st.mem.insert(a, V::P(2, base));
                            for k in 0..n {
                                if rng.chance(1, 150) {
                                    continue;
                                }
                                st.mem.insert((2, base + k), word(rng));
                            }
                        }
                    }
                }
            }
        }
        // Rarely an output cell is already written.
        if rng.chance(1, 12) {
            if let Some(V::P(s, o)) = st.mem.get(&(EXEC, st.ap)).cloned() {
                let k = rng.below(8);
                let v = if rng.bool() {
                    // ... with exactly the value the instruction writes (allowed).
                    match reference_step(ins, &st) {
                        Expect::Ok { writes, .. } => writes.get(k).map(|w| w.1.clone()).unwrap_or(V::F(BigInt::from(7))),
                        _ => V::F(BigInt::from(7)),
                    }
                } else {
                    V::F(BigInt::from(rng.below(1000)))
                };
                st.mem.insert((s, o + k), v);
            }
        }
    }
    if matches!(ins.body, InstructionBody::Call(_)) && rng.chance(1, 10) {
        st.mem.insert((EXEC, st.ap), random_value(rng, 5));
    }
    st
}

/// Compares one step. Returns Ok(true) if compared, Ok(false) if unmodelled, Err on mismatch.
pub fn compare_step(ins: &Instruction, st: &State) -> Result<bool, String> {
    let expect = reference_step(ins, st);
    if let Expect::Unmodelled(_) = expect {
        return Ok(false);
    }
    let mut watch: Vec<(isize, usize)> = st.mem.keys().cloned().collect();
    watch.extend(touched_cells(ins, st));
    watch.push((EXEC, st.ap));
    watch.push((EXEC, st.ap + 1));
    if let Expect::Ok { writes, .. } = &expect {
        watch.extend(writes.iter().map(|w| w.0));
    }
    watch.sort();
    watch.dedup();
    // A seeded cell that collides with the instruction words (or any other loading problem) says
    // nothing about the instruction: the state is skipped.
    let real = match real_step(ins, st, &watch) {
        Ok(r) => r,
        Err(_) => return Ok(false),
    };
    match (expect, real) {
        (Expect::Fail(_), Real::Fail(_)) => Ok(true),
        (Expect::Fail(why), Real::Ok { pc, ap, fp, .. }) => Err(format!(
            "the instruction cannot be carried out in this state ({why}) but the VM stepped to pc={pc:?} ap={ap} fp={fp}"
        )),
        (Expect::Ok { pc, ap, fp, .. }, Real::Fail(e)) => {
            Err(format!("expected pc={pc:?} ap={ap} fp={fp} but the VM failed: {e}"))
        }
        (Expect::Ok { pc, ap, fp, writes }, Real::Ok { pc: rpc, ap: rap, fp: rfp, mem }) => {
            if (pc, ap, fp) != (rpc, rap, rfp) {
                return Err(format!(
                    "registers differ: expected pc={pc:?} ap={ap} fp={fp}, VM has pc={rpc:?} ap={rap} fp={rfp}"
                ));
            }
            let mut expected_mem = st.mem.clone();
            for (a, v) in writes {
                expected_mem.insert(a, v);
            }
            for a in &watch {
                if expected_mem.get(a) != mem.get(a) {
                    return Err(format!(
                        "memory cell {a:?}: expected {:?}, VM has {:?}",
                        expected_mem.get(a),
                        mem.get(a)
                    ));
                }
            }
            Ok(true)
        }
        (Expect::Unmodelled(_), _) => Ok(false),
    }
}

/// Encoding obligations of one instruction.
pub fn check_encoding(ins: &Instruction) -> Result<(), String> {
    let words = ins.assemble().encode();
    if words.len() != ins.body.op_size() {
        return Err(format!("encodes to {} words but op_size() is {}", words.len(), ins.body.op_size()));
    }
    let Some(w0) = words[0].to_u128() else {
        return Err("first word does not fit the instruction word".into());
    };
    let dec = cairo_vm::vm::decoding::decoder::decode_instruction(w0)
        .map_err(|e| format!("VM decoder rejects the first word: {e}"))?;
    if dec.size() != words.len() {
        return Err(format!("VM decoder says size {} but {} words were encoded", dec.size(), words.len()));
    }
    Ok(())
}

pub fn state_json(st: &State) -> serde_json::Value {
    json!({"pc": st.pc, "ap": st.ap, "fp": st.fp,
        "mem": st.mem.iter().map(|((s, o), v)| json!([s, o, match v { V::F(x) => json!({"f": x.to_string()}), V::P(s, o) => json!({"p": [s, o]}) }])).collect::<Vec<_>>()})
}

pub fn c16_worker(ctx: &mut Ctx) {
    install_panic_hook();
    let shapes = shapes();
    ctx.count("shapes_enumerated", if ctx.shard == 0 { shapes.len() as u64 } else { 0 });
    let combos: u64 = ctx.tier.pick(250, 4000);
    let states: u64 = 16;
    let mut idx = 0u64;
    for (si, (name, build)) in shapes.iter().enumerate() {
        for k in 0..combos {
            idx += 1;
            if !ctx.mine(idx) {
                continue;
            }
            let mut rng = Rng::derive(ctx.seed, &[16, si as u64, k]);
            let ins = match guarded(|| build(&mut rng)) {
                Ok(i) => i,
                Err(_) => continue,
            };
            let text = format!("{ins}");
            ctx.eval();
            match guarded(|| check_encoding(&ins)) {
                Ok(Ok(())) => {}
                Ok(Err(e)) => {
                    ctx.violation(&format!("encoding:{name}"), &format!("`{text}`: {e}"), json!({"shape": name, "si": si, "k": k, "seed": ctx.seed, "instruction": text}));
                    continue;
                }
                Err((loc, msg)) => {
                    ctx.violation(&format!("encoding-panic:{name}"), &format!("`{text}`: panic at {loc}: {msg}"), json!({"shape": name, "si": si, "k": k, "seed": ctx.seed, "instruction": text}));
                    continue;
                }
            }
            let mut compared = 0;
            for s in 0..states {
                let st = random_state(&ins, &mut rng);
                match guarded(|| compare_step(&ins, &st)) {
                    Ok(Ok(true)) => {
                        compared += 1;
                        if matches!(ins.body, InstructionBody::Blake2sCompress(_)) {
                            ctx.count(if matches!(reference_step(&ins, &st), Expect::Ok { .. }) { "blake2s.steps_succeeding" } else { "blake2s.steps_failing" }, 1);
                        }
                        if matches!(ins.body, InstructionBody::QM31AssertEq(_)) {
                            ctx.count(if matches!(reference_step(&ins, &st), Expect::Ok { .. }) { "qm31.steps_succeeding" } else { "qm31.steps_failing" }, 1);
                        }
                    }
                    Ok(Ok(false)) => ctx.count("states_unmodelled", 1),
                    Ok(Err(e)) => {
                        ctx.violation(
                            &format!("step:{name}"),
                            &format!("`{text}`: {e}"),
                            json!({"shape": name, "si": si, "k": k, "s": s, "seed": ctx.seed, "instruction": text, "state": state_json(&st)}),
                        );
                        break;
                    }
                    Err((loc, msg)) => {
                        ctx.harness_error(format!("panic in one-step comparison at {loc}: {msg}"));
                        break;
                    }
                }
            }
            ctx.count("states_compared", compared);
            if compared > 0 {
                // Non-trivial: a distinct concrete instruction for which >= 1 state was stepped
                // and compared.
                ctx.nontrivial(fnv_str(&text));
                ctx.set_add("shapes_stepped", name);
            }
            if k == 0 && si % 23 == 0 {
                ctx.sample(json!({"shape": name, "instruction": text, "states_compared": compared}));
            }
        }
        ctx.maybe_flush();
    }
    // Opcode extensions: encoded and decoded, not stepped.
    if ctx.shard == 0 {
        let mut rng = Rng::derive(ctx.seed, &[1600]);
        for k in 0..200 {
            let ins = if k % 2 == 0 {
                Instruction::new(
                    InstructionBody::Blake2sCompress(Blake2sCompressInstruction {
                        state: cell(rng.below(2), &mut rng),
                        byte_count: cell(rng.below(2), &mut rng),
                        message: cell(rng.below(2), &mut rng),
                        finalize: rng.bool(),
                    }),
                    true,
                )
            } else {
                Instruction::new(
                    InstructionBody::QM31AssertEq(AssertEqInstruction {
                        a: cell(rng.below(2), &mut rng),
                        b: ResOperand::BinOp(BinOpOperand {
                            op: if rng.bool() { Operation::Add } else { Operation::Mul },
                            a: cell(rng.below(2), &mut rng),
                            b: DerefOrImmediate::Deref(cell(rng.below(2), &mut rng)),
                        }),
                    }),
                    rng.bool(),
                )
            };
            ctx.eval();
            ctx.count("extension_opcodes_encoded", 1);
            if let Ok(Err(e)) = guarded(|| check_encoding(&ins)) {
                ctx.violation("encoding:extension", &format!("`{ins}`: {e}"), json!({"instruction": format!("{ins}")}));
            }
        }
    }
}

pub fn c16_replay(case: &serde_json::Value) -> Result<Option<String>, String> {
    install_panic_hook();
    let shapes = shapes();
    let si = case["si"].as_u64().ok_or("no shape index")? as usize;
    let k = case["k"].as_u64().ok_or("no k")?;
    let seed = case["seed"].as_u64().unwrap_or(1);
    let (_, build) = shapes.get(si).ok_or("shape index out of range")?;
    let mut rng = Rng::derive(seed, &[16, si as u64, k]);
    let ins = build(&mut rng);
    if let Err(e) = check_encoding(&ins) {
        return Ok(Some(format!("`{ins}`: {e}")));
    }
    for _ in 0..16 {
        let st = random_state(&ins, &mut rng);
        if let Err(e) = compare_step(&ins, &st) {
            return Ok(Some(format!("`{ins}`: {e}")));
        }
    }
    Ok(None)
}
