//! C18: Sierra programs survive every serialization (text, felt252 array, versioned JSON) and
//! compile to byte-identical CASM whatever the id representation.

use std::collections::BTreeSet;

use cairo_lang_compiler::CompilerConfig;
use cairo_lang_compiler::diagnostics::DiagnosticsReporter;
use cairo_lang_filesystem::ids::CrateInput;
use cairo_lang_sierra::ProgramParser;
use cairo_lang_sierra::program::{GenericArg, Program, ProgramArtifact, Statement, VersionedProgram};
use cairo_lang_sierra_generator::canonical_id_replacer::CanonicalReplacer;
use cairo_lang_sierra_generator::replace_ids::SierraIdReplacer;
use cairo_lang_sierra_to_casm::compiler::{SierraToCasmConfig, compile};
use cairo_lang_sierra_to_casm::metadata::calc_metadata;
use cairo_lang_sierra_type_size::ProgramRegistryInfo;
use cairo_lang_starknet_classes::contract_class::{ContractClass, ContractEntryPoints};
use rayon::prelude::*;
use serde_json::json;

use crate::comp::{self, Config, Inl, Plugins};
use crate::frontend::{guarded, install_panic_hook, panic_sig};
use crate::rng::Rng;
use crate::report::{Ctx, ShardResult};
use crate::rng::fnv_str;

/// CASM text of a program, or None if it is not accepted.
pub fn casm_text(p: &Program) -> Option<String> {
    let info = ProgramRegistryInfo::new(p).ok()?;
    let meta = calc_metadata(p, &info, Default::default()).ok()?;
    let casm =
        compile(p, &info, &meta, SierraToCasmConfig { gas_usage_check: true, max_bytecode_size: usize::MAX })
            .ok()?;
    Some(casm.to_string())
}

pub fn canon(p: &Program) -> Program {
    CanonicalReplacer::from_program(p).apply(p)
}

/// Canonical form for the isomorphism check: type / libfunc / function ids by declaration order
/// (CanonicalReplacer) and, in addition, user type ids renamed by first occurrence - user type ids
/// are hashes of names, and a text round trip may respell a name.
pub fn iso_canon(p: &Program) -> Program {
    let mut c = canon(p);
    let mut map: std::collections::HashMap<num_bigint::BigUint, u64> = Default::default();
    let mut rename = |args: &mut Vec<GenericArg>| {
        for a in args.iter_mut() {
            if let GenericArg::UserType(ut) = a {
                let n = map.len() as u64;
                let k = *map.entry(ut.id.clone()).or_insert(n);
                ut.id = num_bigint::BigUint::from(k);
                ut.debug_name = None;
            }
        }
    };
    for t in &mut c.type_declarations {
        rename(&mut t.long_id.generic_args);
    }
    for l in &mut c.libfunc_declarations {
        rename(&mut l.long_id.generic_args);
    }
    c
}

fn generic_arg_kinds(p: &Program, out: &mut BTreeSet<String>) {
    fn visit(args: &Vec<GenericArg>, out: &mut BTreeSet<String>) {
        for a in args {
            out.insert(
                match a {
                    GenericArg::UserType(_) => "UserType",
                    GenericArg::Type(_) => "Type",
                    GenericArg::Value(v) if v.sign() == num_bigint::Sign::Minus => "Value(negative)",
                    GenericArg::Value(v) if v.bits() > 128 => "Value(>128 bits)",
                    GenericArg::Value(_) => "Value",
                    GenericArg::UserFunc(_) => "UserFunc",
                    GenericArg::Libfunc(_) => "Libfunc",
                }
                .to_string(),
            );
        }
    }
    for t in &p.type_declarations {
        visit(&t.long_id.generic_args, out);
        if t.declared_type_info.is_some() {
            out.insert("declared_type_info".into());
        }
    }
    for l in &p.libfunc_declarations {
        visit(&l.long_id.generic_args, out);
    }
    for s in &p.statements {
        match s {
            Statement::Return(_) => out.insert("stmt:return".into()),
            Statement::Invocation(i) if i.branches.len() > 1 => out.insert("stmt:multi-branch".into()),
            Statement::Invocation(_) => out.insert("stmt:invocation".into()),
        };
    }
}

/// All round-trip obligations of one program. `raw` optionally is the same program with the
/// compiler's raw (interned) ids.
pub fn check_program(acc: &mut ShardResult, name: &str, s: &Program, raw: Option<&Program>, replay: &serde_json::Value) {
    acc.eval();
    // The property is about programs the toolchain produces; test-data programs that are
    // deliberately ill-formed (undeclared ids, targets past the end) are outside its domain.
    if !matches!(guarded(|| ProgramRegistryInfo::new(s).is_ok()), Ok(true)) {
        acc.inconclusive("corpus program rejected by the program registry (out of domain)");
        return;
    }
    let mut kinds = BTreeSet::new();
    generic_arg_kinds(s, &mut kinds);
    for k in &kinds {
        acc.set_add("constructs_seen", k);
    }
    let mut fail = |acc: &mut ShardResult, sig: &str, desc: String| {
        acc.violation(sig, &format!("{name}: {desc}"), replay.clone());
    };
    // --- text.
    let text = match guarded(|| s.to_string()) {
        Ok(t) => t,
        Err((loc, msg)) => {
            // Some corpus texts are deliberately invalid programs (e.g. branch targets past the
            // end) that cannot be printed with labels; only valid programs are in the domain.
            if ProgramRegistryInfo::new(s).is_ok() && casm_text(s).is_some() {
                fail(acc, &format!("text:{}", panic_sig(&loc, &msg)), format!("printing panicked at {loc}: {msg}"));
            } else {
                acc.inconclusive("invalid corpus program cannot be printed (out of domain)");
            }
            return;
        }
    };
    let parsed = match guarded(|| ProgramParser::new().parse(&text).map_err(|e| format!("{e:?}"))) {
        Ok(Ok(p)) => p,
        Ok(Err(e)) => {
            // Show the printed text around the reported location.
            let at: Option<usize> = e
                .split("location: ")
                .nth(1)
                .or_else(|| e.split("token: (").nth(1))
                .and_then(|r| r.split(|c: char| !c.is_ascii_digit()).next())
                .and_then(|n| n.parse().ok());
            let around = at.map(|a| {
                let lo = (0..=a.saturating_sub(80).min(text.len())).rev().find(|i| text.is_char_boundary(*i)).unwrap_or(0);
                let hi = (a.saturating_add(80).min(text.len())..=text.len()).find(|i| text.is_char_boundary(*i)).unwrap_or(text.len());
                text[lo..hi].to_string()
            });
            // Closure types and the functions generated for them carry free-text debug names
            // (`{closure@lib.cairo:3:13: 3:24}`, ``Generated `..Fn::call` for {closure@..}``).
            let sig = if around.as_deref().is_some_and(|a| a.contains("{closure@")) { "text:parse-failed:closure-names" } else { "text:parse-failed" };
            fail(acc, sig, format!("printed program does not parse back: {}; printed text there: {around:?}", e.chars().take(300).collect::<String>()));
            return;
        }
        Err((loc, msg)) => {
            fail(acc, &format!("text:{}", panic_sig(&loc, &msg)), format!("parser panicked at {loc}: {msg}"));
            return;
        }
    };
    // Display is a fixpoint after one round: names may be respelled once by the parser (spacing
    // inside `{...}` of specialized function names, the trailing comma of one-tuples).
    let text1 = parsed.to_string();
    let text2 = match guarded(|| ProgramParser::new().parse(&text1).map(|p| p.to_string()).map_err(|e| format!("{e:?}"))) {
        Ok(Ok(t)) => t,
        Ok(Err(e)) => {
            fail(acc, "text:second-parse-failed", format!("display(parse(display(s))) does not parse: {}", e.chars().take(300).collect::<String>()));
            return;
        }
        Err((loc, msg)) => {
            fail(acc, &format!("text:{}", panic_sig(&loc, &msg)), format!("parser panicked at {loc}: {msg}"));
            return;
        }
    };
    if text1 != text {
        acc.count("names_respelled_by_first_round", 1);
    }
    if text2 != text1 {
        let at = text1.bytes().zip(text2.bytes()).take_while(|(a, b)| a == b).count();
        fail(acc, "text:not-fixpoint", format!("display is not a fixpoint after one round; the second round differs at byte {at}: {:?} vs {:?}",
            &text1[at.saturating_sub(30)..(at + 40).min(text1.len())], &text2[at.saturating_sub(30).min(text2.len())..(at + 40).min(text2.len())]));
        return;
    }
    let cs = canon(s);
    if iso_canon(&parsed) != iso_canon(s) {
        fail(acc, "text:not-isomorphic", "parse(display(s)) is not s up to a consistent renaming of ids".into());
        return;
    }
    // --- felts (the contract class face of the felt252 serde).
    let class = match guarded(|| ContractClass::new(&cs, ContractEntryPoints::default(), None, Default::default())) {
        Ok(Ok(c)) => Some(c),
        Ok(Err(e)) => {
            fail(acc, "felt:serialize-failed", format!("canonical program does not serialize: {e}"));
            None
        }
        Err((loc, msg)) => {
            fail(acc, &format!("felt:{}", panic_sig(&loc, &msg)), format!("serialization panicked at {loc}: {msg}"));
            None
        }
    };
    let mut from_felts = None;
    if let Some(class) = &class {
        match guarded(|| class.extract_sierra_program(false).map(|e| e.program)) {
            Ok(Ok(p)) => {
                if p != cs {
                    fail(acc, "felt:roundtrip-differs", "extract(ContractClass::new(canon(s))) != canon(s)".into());
                } else {
                    acc.count("felt_roundtrips_ok", 1);
                    from_felts = Some(p);
                }
            }
            Ok(Err(e)) => fail(acc, "felt:deserialize-failed", format!("serialized program does not read back: {e}")),
            Err((loc, msg)) => fail(acc, &format!("felt:{}", panic_sig(&loc, &msg)), format!("deserialization panicked at {loc}: {msg}")),
        }
        // The class JSON itself.
        match serde_json::to_string(class).ok().and_then(|j| serde_json::from_str::<ContractClass>(&j).ok()) {
            Some(c2) if &c2 == class => {}
            _ => fail(acc, "felt:class-json", "contract class JSON round trip differs".into()),
        }
    }
    // --- versioned JSON.
    for with_debug in [false, true] {
        let art = if with_debug {
            ProgramArtifact::stripped(s.clone())
                .with_debug_info(cairo_lang_sierra::debug_info::DebugInfo::extract(s))
        } else {
            ProgramArtifact::stripped(s.clone())
        };
        let vp = VersionedProgram::v1(art);
        let back = serde_json::to_string(&vp).ok().and_then(|j| serde_json::from_str::<VersionedProgram>(&j).ok());
        match back.and_then(|v| v.into_v1().ok()) {
            Some(a) if a.program == *s => acc.count("json_roundtrips_ok", 1),
            Some(_) => fail(acc, "json:roundtrip-differs", format!("VersionedProgram JSON round trip changed the program (debug info: {with_debug})")),
            None => fail(acc, "json:failed", "VersionedProgram JSON round trip failed".into()),
        }
    }
    // --- CASM equality across representations.
    let base = match guarded(|| casm_text(s)) {
        Ok(x) => x,
        Err((loc, msg)) => {
            acc.inconclusive(&format!("compile panicked: {}", panic_sig(&loc, &msg)));
            return;
        }
    };
    let Some(base) = base else {
        acc.count("programs_not_compilable", 1);
        // Non-trivial for the serializers all the same.
        acc.nontrivial(fnv_str(&text));
        return;
    };
    let mut variants: Vec<(&str, &Program)> = vec![("canonical ids", &cs), ("text round trip", &parsed)];
    if let Some(p) = &from_felts {
        variants.push(("felt round trip", p));
    }
    if let Some(r) = raw {
        variants.push(("raw compiler ids", r));
    }
    // Stripped debug names.
    let mut stripped = s.clone();
    for t in &mut stripped.type_declarations {
        t.id.debug_name = None;
    }
    for l in &mut stripped.libfunc_declarations {
        l.id.debug_name = None;
    }
    variants.push(("declaration names stripped", &stripped));
    for (what, v) in variants {
        match guarded(|| casm_text(v)) {
            Ok(Some(t)) if t == base => acc.count("casm_comparisons_equal", 1),
            Ok(Some(t)) => {
                let at = base.bytes().zip(t.bytes()).take_while(|(a, b)| a == b).count();
                fail(acc, &format!("casm-differs:{}", what.replace(' ', "-")), format!("CASM of the program with {what} differs from the original's at byte {at}"));
            }
            Ok(None) => fail(acc, &format!("casm-rejected:{}", what.replace(' ', "-")), format!("the program with {what} is rejected although the original compiles")),
            Err((loc, msg)) => fail(acc, &format!("casm:{}", panic_sig(&loc, &msg)), format!("compiling the program with {what} panicked at {loc}: {msg}")),
        }
    }
    acc.nontrivial(fnv_str(&text));
    if fnv_str(&text) % 401 == 0 {
        acc.sample(json!({"program": name, "statements": s.statements.len(), "types": s.type_declarations.len(),
            "libfuncs": s.libfunc_declarations.len(), "constructs": kinds}));
    }
}

/// Compiles a snippet and returns (program with debug names, program with raw ids).
pub fn compile_both(cfg: &Config, starknet: bool, code: &str) -> Result<(Program, Program), String> {
    let db = comp::build_db(cfg, if starknet { Plugins::Starknet } else { Plugins::Default });
    let c = comp::virtual_crate("test", code, &comp::default_settings(), None);
    let ids = CrateInput::into_crate_ids(&db, vec![c.clone()]);
    let mut out = vec![];
    for replace_ids in [true, false] {
        let mut diag = String::new();
        let p = cairo_lang_compiler::compile_prepared_db_program(
            &db,
            ids.clone(),
            CompilerConfig {
                diagnostics_reporter: DiagnosticsReporter::write_to_string(&mut diag)
                    .with_crates(std::slice::from_ref(&c))
                    .allow_warnings(),
                replace_ids,
                ..Default::default()
            },
        )
        .map_err(|e| format!("{e}"))?;
        out.push(p);
    }
    let raw = out.pop().unwrap();
    let named = out.pop().unwrap();
    Ok((named, raw))
}

pub fn c18_worker(ctx: &mut Ctx) {
    install_panic_hook();
    // Text corpus: every parseable Sierra program in the repo.
    let corpus = crate::sierra_mut::load_corpus(ctx.tier.pick(1500, 1_000_000));
    ctx.count("corpus_programs", corpus.programs.len() as u64);
    let step = 1usize;
    let offset = (ctx.seed as usize) % step;
    let picked: Vec<&(String, Program)> =
        corpus.programs.iter().enumerate().filter(|(i, _)| i % step == offset).map(|(_, p)| p).collect();
    let results: Vec<ShardResult> = picked
        .par_iter()
        .map(|(name, p)| {
            let mut acc = ShardResult::default();
            check_program(&mut acc, name, p, None, &json!({"kind": "corpus", "name": name}));
            acc
        })
        .collect();
    for r in results {
        ctx.absorb(r);
    }
    ctx.flush();
    // Compiled snippets with raw ids, under two configurations.
    let mut cases = crate::execchecks::snippet_cases();
    // Generated programs: user types, tuples, options, arrays, loops (generated function names).
    for i in 0..ctx.tier.pick(60u64, 800) {
        let mut rng = Rng::derive(ctx.seed, &[1, i]);
        if let Ok((program, _)) = guarded(|| crate::pgen::generate(&mut rng)) {
            cases.push((format!("generated-program#{i}"), crate::pgen::render_program(&program)));
        }
    }
    let cfgs: Vec<Config> = ctx.tier.pick(
        vec![Config::DEFAULT, Config { opt: Some((Inl::Avoid, true)), ..Config::DEFAULT }],
        vec![Config::DEFAULT, Config { opt: Some((Inl::Avoid, true)), ..Config::DEFAULT }, Config::DISABLED, Config { opt: Some((Inl::Small(5000), false)), ..Config::DEFAULT }],
    );
    let sstep = ctx.tier.pick(2usize, 1usize);
    let work: Vec<(&(String, String), &Config)> = cases
        .iter()
        .enumerate()
        .filter(|(i, _)| i % sstep == (ctx.seed as usize) % sstep)
        .flat_map(|(_, c)| cfgs.iter().map(move |cfg| (c, cfg)))
        .collect();
    let results: Vec<ShardResult> = work
        .par_iter()
        .map(|((name, code), cfg)| {
            let mut acc = ShardResult::default();
            let starknet = name.contains("libfuncs/starknet") || code.contains("starknet::");
            match guarded(|| compile_both(cfg, starknet, code)) {
                Ok(Ok((named, raw))) => {
                    acc.count("snippets_compiled", 1);
                    check_program(
                        &mut acc,
                        &format!("{name} [{}]", cfg.name()),
                        &named,
                        Some(&raw),
                        &json!({"kind": "snippet", "name": name, "code": code, "cfg": cfg}),
                    );
                }
                Ok(Err(_)) => acc.inconclusive("snippet does not compile standalone"),
                Err((loc, msg)) => acc.inconclusive(&format!("compile panicked: {}", panic_sig(&loc, &msg))),
            }
            acc
        })
        .collect();
    for r in results {
        ctx.absorb(r);
    }
    ctx.flush();
    // Thorough: the whole corelib test suite as one program (every libfunc family the corelib uses).
    if ctx.tier == crate::report::Tier::Thorough {
        for cfg in [Config::DEFAULT, Config::DISABLED] {
            match guarded(|| crate::w2::compile_corelib_tests(&cfg)) {
                Ok(Ok(suite)) => {
                    let mut acc = ShardResult::default();
                    check_program(&mut acc, &format!("corelib test suite [{}]", cfg.name()), &suite.prog.program, None, &json!({"kind": "corelib-suite", "cfg": cfg}));
                    ctx.count("corelib_suite_statements", suite.prog.program.statements.len() as u64);
                    ctx.absorb(acc);
                }
                Ok(Err(e)) => ctx.inconclusive(&format!("corelib test suite does not compile: {}", e.chars().take(80).collect::<String>())),
                Err((loc, msg)) => ctx.inconclusive(&format!("corelib test suite compile panicked: {}", panic_sig(&loc, &msg))),
            }
        }
    }
}

pub fn c18_replay(case: &serde_json::Value) -> Result<Option<String>, String> {
    install_panic_hook();
    let mut acc = ShardResult::default();
    match case["kind"].as_str().unwrap_or("") {
        "corpus" => {
            let name = case["name"].as_str().ok_or("no name")?;
            let corpus = crate::sierra_mut::load_corpus(1_000_000);
            let (_, p) = corpus.programs.iter().find(|(n, _)| n == name).ok_or("program not in corpus")?;
            check_program(&mut acc, name, p, None, case);
        }
        "snippet" => {
            let name = case["name"].as_str().ok_or("no name")?;
            let code = case["code"].as_str().ok_or("no code")?;
            let cfg: Config = serde_json::from_value(case["cfg"].clone()).map_err(|e| e.to_string())?;
            let starknet = name.contains("libfuncs/starknet") || code.contains("starknet::");
            let (named, raw) = compile_both(&cfg, starknet, code)?;
            check_program(&mut acc, name, &named, Some(&raw), case);
        }
        "corelib-suite" => {
            let cfg: Config = serde_json::from_value(case["cfg"].clone()).map_err(|e| e.to_string())?;
            let suite = crate::w2::compile_corelib_tests(&cfg)?;
            check_program(&mut acc, "corelib test suite", &suite.prog.program, None, case);
        }
        k => return Err(format!("unknown replay kind {k}")),
    }
    Ok(acc.violations.first().map(|v| format!("{}: {}", v.sig, v.desc)))
}
