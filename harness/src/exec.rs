//! The monitored run: executes a function of a Sierra program in the real VM through the real
//! runner pieces, and records what monitors need (result, gas, resources, relocated trace).
//! Trace monitors for C17 (ap-change / statement ranges) and C04 (gas inequality) live here.

use std::collections::{BTreeMap, HashMap, HashSet};

use cairo_lang_casm::hints::Hint;
use cairo_lang_casm::instructions::InstructionBody;
use cairo_lang_casm::operand::DerefOrImmediate;
use cairo_lang_runnable_utils::builder::RunnableBuilder;
use cairo_lang_runner::casm_run::{self, RunFunctionResult, StarknetHintProcessor};
use cairo_lang_runner::{
    Arg, RunResultValue, RunnerError, SierraCasmRunner, StarknetState, initialize_vm, token_gas_cost,
};
use cairo_lang_sierra::extensions::enm::EnumType;
use cairo_lang_sierra::extensions::gas::CostTokenType;
use cairo_lang_sierra::extensions::NamedType;
use cairo_lang_sierra::ids::ConcreteTypeId;
use cairo_lang_sierra::program::{Function, GenericArg, Program, Statement};
use cairo_lang_sierra_to_casm::metadata::MetadataComputationConfig;
use cairo_lang_utils::ordered_hash_map::OrderedHashMap;
use cairo_vm::types::builtin_name::BuiltinName;
use cairo_vm::vm::runners::cairo_runner::RunResources;
use num_traits::ToPrimitive;
use starknet_types_core::felt::Felt as Felt252;

#[derive(Clone, Copy, Debug, PartialEq, Eq)]
pub enum Kind {
    Call,
    Ret,
    Other,
}

/// Static layout of the compiled body: instruction offsets and kinds, statement ranges, function
/// entries, const-segment `ret`s.
pub struct Layout {
    /// Start offset of each instruction.
    pub instr_offset: Vec<usize>,
    pub instr_kind: Vec<Kind>,
    /// offset -> instruction index.
    pub by_offset: HashMap<usize, usize>,
    /// Total size of the instructions.
    pub code_len: usize,
    /// Offsets of the `ret` that precedes each const segment.
    pub const_rets: HashSet<usize>,
    /// function entry offset -> function index in program.funcs.
    pub func_entry: HashMap<usize, usize>,
    /// For each function index, its declared ap change if known.
    pub func_ap_change: Vec<Option<usize>>,
    /// Problems found in the static layout itself (statement ranges must tile the code).
    pub static_problems: Vec<String>,
}

pub struct Prog {
    pub program: Program,
    pub runner: SierraCasmRunner,
    pub builder: RunnableBuilder,
    pub layout: Layout,
    pub gas_enabled: bool,
}

pub fn metadata_config(
    linear: bool,
    function_set_costs: OrderedHashMap<cairo_lang_sierra::ids::FunctionId, cairo_lang_sierra::extensions::gas::CostTokenMap<i32>>,
) -> MetadataComputationConfig {
    MetadataComputationConfig {
        function_set_costs,
        linear_gas_solver: linear,
        linear_ap_change_solver: linear,
        skip_non_linear_solver_comparisons: !linear,
        compute_runtime_costs: false,
    }
}

impl Prog {
    pub fn new(program: Program, meta: Option<MetadataComputationConfig>) -> Result<Prog, String> {
        let gas_enabled = meta.is_some();
        let builder =
            RunnableBuilder::new(program.clone(), meta.clone()).map_err(|e| format!("builder: {e}"))?;
        let runner = SierraCasmRunner::new(program.clone(), meta, Default::default(), None)
            .map_err(|e| format!("runner: {e}"))?;
        let layout = Layout::new(&builder, &program);
        Ok(Prog { program, runner, builder, layout, gas_enabled })
    }
    pub fn with_contracts(
        program: Program,
        meta: Option<MetadataComputationConfig>,
        contracts: OrderedHashMap<Felt252, cairo_lang_starknet::contract::ContractInfo>,
    ) -> Result<Prog, String> {
        let gas_enabled = meta.is_some();
        let builder =
            RunnableBuilder::new(program.clone(), meta.clone()).map_err(|e| format!("builder: {e}"))?;
        let runner = SierraCasmRunner::new(program.clone(), meta, contracts, None)
            .map_err(|e| format!("runner: {e}"))?;
        let layout = Layout::new(&builder, &program);
        Ok(Prog { program, runner, builder, layout, gas_enabled })
    }
}

impl Layout {
    pub fn new(builder: &RunnableBuilder, program: &Program) -> Layout {
        let casm = builder.casm_program();
        let mut instr_offset = Vec::with_capacity(casm.instructions.len());
        let mut instr_kind = Vec::with_capacity(casm.instructions.len());
        let mut by_offset = HashMap::with_capacity(casm.instructions.len());
        let mut off = 0usize;
        for (i, ins) in casm.instructions.iter().enumerate() {
            instr_offset.push(off);
            by_offset.insert(off, i);
            instr_kind.push(match &ins.body {
                InstructionBody::Call(_) => Kind::Call,
                InstructionBody::Ret(_) => Kind::Ret,
                _ => Kind::Other,
            });
            off += ins.body.op_size();
        }
        let code_len = off;
        // Following `CairoProgram::assemble_ex`: after the instructions come, per const segment, a
        // `ret` and the segment's values, and then the footer (a single `ret` that libfuncs reading
        // fp/pc reach through `call rel`).
        let mut const_rets = HashSet::new();
        let mut pos = code_len;
        for seg in casm.consts_info.segments.values() {
            const_rets.insert(pos);
            pos += 1 + seg.values.len();
        }
        const_rets.insert(pos);
        let mut static_problems = vec![];
        // Statement ranges must tile [0, code_len) in order, each starting on an instruction.
        let infos = &casm.debug_info.sierra_statement_info;
        let mut expected = 0usize;
        for (i, info) in infos.iter().enumerate() {
            if info.start_offset != expected {
                static_problems.push(format!(
                    "statement {i} starts at {} but the previous statement ended at {expected}",
                    info.start_offset
                ));
            }
            if info.end_offset < info.start_offset {
                static_problems.push(format!("statement {i} has end < start"));
            }
            if info.start_offset < code_len && !by_offset.contains_key(&info.start_offset) {
                static_problems
                    .push(format!("statement {i} starts inside an instruction ({})", info.start_offset));
            }
            if info.start_offset < code_len
                && by_offset.get(&info.start_offset) != Some(&info.instruction_idx)
            {
                static_problems.push(format!(
                    "statement {i}: instruction_idx {} does not match start offset {}",
                    info.instruction_idx, info.start_offset
                ));
            }
            expected = info.end_offset;
        }
        if !infos.is_empty() && expected != code_len {
            static_problems.push(format!(
                "statement ranges end at {expected} but the code has {code_len} words"
            ));
        }
        // The encoded length of every instruction must equal its op_size.
        for (i, ins) in casm.instructions.iter().enumerate() {
            let enc = ins.assemble().encode();
            if enc.len() != ins.body.op_size() {
                static_problems.push(format!(
                    "instruction {i} `{ins}` encodes to {} words but op_size is {}",
                    enc.len(),
                    ins.body.op_size()
                ));
                break;
            }
        }
        let mut func_entry = HashMap::new();
        let mut func_ap_change = vec![];
        let meta = builder.metadata();
        for (fi, f) in program.funcs.iter().enumerate() {
            if let Some(info) = infos.get(f.entry_point.0) {
                func_entry.insert(info.start_offset, fi);
            }
            func_ap_change.push(meta.ap_change_info.function_ap_change.get(&f.id).copied());
        }
        Layout {
            instr_offset,
            instr_kind,
            by_offset,
            code_len,
            const_rets,
            func_entry,
            func_ap_change,
            static_problems,
        }
    }

    /// Index of the Sierra statement whose range contains `offset`.
    pub fn statement_at(&self, builder: &RunnableBuilder, offset: usize) -> Option<usize> {
        let infos = &builder.casm_program().debug_info.sierra_statement_info;
        let i = infos.partition_point(|x| x.start_offset <= offset);
        // Several statements may start at the same offset (zero-sized ones): the last one with
        // start <= offset that has end > offset.
        (0..i).rev().find(|j| infos[*j].start_offset <= offset && offset < infos[*j].end_offset)
    }
}

#[derive(Clone, Debug, PartialEq, Eq)]
pub enum Outcome {
    Success(Vec<Felt252>),
    Panic(Vec<Felt252>),
    /// The VM (or hint processor) failed: an unprovable trace.
    VmError(String),
    /// Not a run: the budget does not cover the function's entry cost.
    NotEnoughGas,
    /// Not a run: the harness could not set the run up (argument mismatch, build error).
    Setup(String),
}

pub struct RunRecord {
    pub outcome: Outcome,
    pub available_gas: Option<usize>,
    pub gas_counter: Option<Felt252>,
    /// Steps of the body (header and footer removed as the runner does).
    pub steps: usize,
    pub builtins: BTreeMap<String, usize>,
    pub made_syscalls: bool,
    /// Body trace: (offset relative to the body, ap, fp).
    pub trace: Vec<(usize, usize, usize)>,
    pub memory: Vec<Option<Felt252>>,
    pub ap_end: usize,
}

fn inner_type_from_panic_wrapper(
    builder: &RunnableBuilder,
    func: &Function,
) -> Option<ConcreteTypeId> {
    func.signature.ret_types.iter().find_map(|rt| {
        let long_id = builder.type_long_id(rt);
        if long_id.generic_id != EnumType::ID {
            return None;
        }
        match (&long_id.generic_args.first(), long_id.generic_args.get(1)) {
            (Some(GenericArg::UserType(ut)), Some(GenericArg::Type(t)))
                if ut
                    .debug_name
                    .as_ref()
                    .is_some_and(|n| n.starts_with("core::panics::PanicResult::")) =>
            {
                Some(t.clone())
            }
            _ => None,
        }
    })
}

/// Hook to wrap the honest hint processor (used by the hint-fault injector).
pub type Wrap<'a> = &'a mut dyn FnMut(
    casm_run::CairoHintProcessor<'_>,
    &mut dyn FnMut(&mut dyn StarknetHintProcessor) -> Result<RunFunctionResult, String>,
) -> Result<RunFunctionResult, String>;

pub const STEP_LIMIT: usize = 20_000_000;

/// Runs `func` with `args` and `gas`, recording the trace.
pub fn run(prog: &Prog, func: &Function, args: Vec<Arg>, gas: Option<usize>) -> RunRecord {
    run_with(prog, func, args, gas, None)
}

pub fn run_with(
    prog: &Prog,
    func: &Function,
    args: Vec<Arg>,
    gas: Option<usize>,
    wrap: Option<Wrap<'_>>,
) -> RunRecord {
    let empty = |outcome| RunRecord {
        outcome,
        available_gas: gas,
        gas_counter: None,
        steps: 0,
        builtins: BTreeMap::new(),
        made_syscalls: false,
        trace: vec![],
        memory: vec![],
        ap_end: 0,
    };
    let (mut hp, ctx) =
        match prog.runner.prepare_starknet_context(func, args, gas, StarknetState::default()) {
            Ok(x) => x,
            Err(RunnerError::NotEnoughGasToCall) => return empty(Outcome::NotEnoughGas),
            Err(e) => return empty(Outcome::Setup(format!("{e}"))),
        };
    hp.run_resources = RunResources::new(STEP_LIMIT);
    let data_len = ctx.bytecode.len();
    let bytecode = ctx.bytecode;
    let builtins: Vec<BuiltinName> = ctx.builtins;
    let hints_dict = ctx.hints_dict;
    let mut syscalls = false;
    let res: Result<RunFunctionResult, String> = match wrap {
        None => {
            let r = casm_run::run_function(
                bytecode.iter(),
                builtins,
                |vm| initialize_vm(vm, data_len),
                &mut hp,
                hints_dict,
            )
            .map_err(|e| format!("{e}"));
            syscalls = !hp.syscalls_used_resources.syscalls.is_empty();
            r
        }
        Some(w) => {
            let mut hints_dict = Some(hints_dict);
            let mut builtins = Some(builtins);
            w(hp, &mut |whp: &mut dyn StarknetHintProcessor| {
                let r = casm_run::run_function(
                    bytecode.iter(),
                    builtins.take().unwrap(),
                    |vm| initialize_vm(vm, data_len),
                    whp,
                    hints_dict.take().unwrap(),
                )
                .map_err(|e| format!("{e}"));
                syscalls = !whp.take_syscalls_used_resources().syscalls.is_empty();
                r
            })
        }
    };
    let RunFunctionResult { ap, used_resources, memory, relocated_trace } = match res {
        Ok(r) => r,
        Err(e) => return empty(Outcome::VmError(e)),
    };
    let header_end = relocated_trace.last().map(|e| e.pc).unwrap_or(0);
    let load_offset = header_end + 1;
    let first = relocated_trace.iter().position(|e| e.pc > header_end).unwrap_or(0);
    let last_rev = relocated_trace.iter().rev().position(|e| e.pc > header_end).unwrap_or(0);
    let steps = used_resources.n_steps.saturating_sub(first).saturating_sub(last_rev);
    let body = &relocated_trace[first..relocated_trace.len() - last_rev];
    let trace: Vec<(usize, usize, usize)> =
        body.iter().map(|e| (e.pc.wrapping_sub(load_offset), e.ap, e.fp)).collect();
    let mut builtin_counts = BTreeMap::new();
    for (k, v) in used_resources.builtin_instance_counter.iter() {
        builtin_counts.insert(k.to_str().to_string(), *v);
    }
    // Decode the result like SierraCasmRunner::run_function does.
    let return_types = prog.builder.generic_id_and_size_from_concrete(&func.signature.ret_types);
    let decoded = std::panic::catch_unwind(std::panic::AssertUnwindSafe(|| {
        let (results_data, gas_counter) = prog.runner.get_results_data(&return_types, &memory, ap);
        let value = match results_data.into_iter().next() {
            None => RunResultValue::Success(vec![]),
            Some((_ty, values)) => {
                let inner =
                    inner_type_from_panic_wrapper(&prog.builder, func).map(|t| prog.builder.type_size(&t));
                SierraCasmRunner::handle_main_return_value(inner, values, &memory)
            }
        };
        (value, gas_counter)
    }));
    let (value, gas_counter) = match decoded {
        Ok(x) => x,
        Err(_) => {
            return RunRecord {
                outcome: Outcome::VmError("result cells not readable after a completed run".into()),
                available_gas: gas,
                gas_counter: None,
                steps,
                builtins: builtin_counts,
                made_syscalls: syscalls,
                trace,
                memory,
                ap_end: ap,
            };
        }
    };
    RunRecord {
        outcome: match value {
            RunResultValue::Success(v) => Outcome::Success(v),
            RunResultValue::Panic(v) => Outcome::Panic(v),
        },
        available_gas: gas,
        gas_counter,
        steps,
        builtins: builtin_counts,
        made_syscalls: syscalls,
        trace,
        memory,
        ap_end: ap,
    }
}

// ---------------------------------------------------------------------------------------------
// C17 monitor.

#[derive(Default, Debug)]
pub struct ApStats {
    pub call_instances_checked: u64,
    pub call_instances_unknown: u64,
    pub const_ret_hits: u64,
    pub functions_checked: HashSet<usize>,
    pub max_depth: usize,
}

/// Shadow call stack over the body trace. Returns the first mismatch found.
pub fn check_ap_and_ranges(prog: &Prog, rec: &RunRecord, stats: &mut ApStats) -> Result<(), (String, String)> {
    let lay = &prog.layout;
    if let Some(p) = lay.static_problems.first() {
        return Err(("static-layout".into(), p.clone()));
    }
    struct Frame {
        callee: Option<usize>,
        ap_at_entry: usize,
        is_const_seg: bool,
    }
    let mut stack: Vec<Frame> = vec![];
    let n = rec.trace.len();
    for i in 0..n {
        let (pc, ap, _fp) = rec.trace[i];
        if lay.const_rets.contains(&pc) {
            stats.const_ret_hits += 1;
            // The `ret` in front of a const segment, reached by `call rel` from const_as_box &c.
            match stack.pop() {
                Some(f) if f.is_const_seg => {}
                _ => {
                    return Err((
                        "const-ret-without-call".into(),
                        format!("trace step {i}: pc {pc} is a const-segment ret not reached by a call"),
                    ));
                }
            }
            continue;
        }
        let Some(&ii) = lay.by_offset.get(&pc) else {
            return Err((
                "pc-not-instruction-start".into(),
                format!(
                    "trace step {i}: pc offset {pc} is not the start of an instruction (code {} words)",
                    lay.code_len
                ),
            ));
        };
        if lay.statement_at(&prog.builder, pc).is_none() {
            return Err((
                "pc-outside-statements".into(),
                format!("trace step {i}: pc offset {pc} lies in no statement's recorded range"),
            ));
        }
        match lay.instr_kind[ii] {
            Kind::Call => {
                if i + 1 < n {
                    let (npc, nap, _) = rec.trace[i + 1];
                    let is_const = lay.const_rets.contains(&npc);
                    stack.push(Frame {
                        callee: lay.func_entry.get(&npc).copied(),
                        ap_at_entry: nap,
                        is_const_seg: is_const,
                    });
                    stats.max_depth = stats.max_depth.max(stack.len());
                }
            }
            Kind::Ret => {
                let Some(f) = stack.pop() else {
                    // The ret of the entry function itself (returns to the header).
                    continue;
                };
                if f.is_const_seg {
                    return Err((
                        "const-frame-ret".into(),
                        format!("trace step {i}: ordinary ret closes a const-segment call frame"),
                    ));
                }
                match f.callee.and_then(|c| lay.func_ap_change[c].map(|k| (c, k))) {
                    Some((c, k)) => {
                        stats.call_instances_checked += 1;
                        stats.functions_checked.insert(c);
                        let actual = ap as i64 - f.ap_at_entry as i64;
                        if actual != k as i64 {
                            return Err((
                                format!("ap-change:{}", prog.program.funcs[c].id),
                                format!(
                                    "function {} declares ap change {k} but this call instance moved ap by {actual} \
                                     (entry ap {}, ap at ret {ap}, trace step {i})",
                                    prog.program.funcs[c].id, f.ap_at_entry
                                ),
                            ));
                        }
                    }
                    None => stats.call_instances_unknown += 1,
                }
            }
            Kind::Other => {}
        }
    }
    Ok(())
}

/// The entry function itself: ap at its `ret` minus ap at its first instruction.
pub fn check_entry_function_ap(prog: &Prog, func: &Function, rec: &RunRecord) -> Result<bool, (String, String)> {
    let Some(fi) = prog.program.funcs.iter().position(|f| f.id == func.id) else {
        return Ok(false);
    };
    let Some(k) = prog.layout.func_ap_change[fi] else {
        return Ok(false);
    };
    let (Some(first), Some(last)) = (rec.trace.first(), rec.trace.last()) else {
        return Ok(false);
    };
    let actual = last.1 as i64 - first.1 as i64;
    if actual != k as i64 {
        return Err((
            format!("ap-change:{}", func.id),
            format!("entry function {} declares ap change {k} but the run moved ap by {actual}", func.id),
        ));
    }
    Ok(true)
}

// ---------------------------------------------------------------------------------------------
// C04 monitor.

pub fn builtin_price(name: &str) -> Option<usize> {
    Some(match name {
        "range_check" => 70,
        "range_check96" => 56,
        "pedersen" => token_gas_cost(CostTokenType::Pedersen),
        "poseidon" => token_gas_cost(CostTokenType::Poseidon),
        "bitwise" => token_gas_cost(CostTokenType::Bitwise),
        "ec_op" => token_gas_cost(CostTokenType::EcOp),
        "add_mod" => token_gas_cost(CostTokenType::AddMod),
        "mul_mod" => token_gas_cost(CostTokenType::MulMod),
        // Not priced by the toolchain's tables (segment arena, output, ...): not part of the
        // inequality.
        _ => return None,
    })
}

pub struct GasVerdict {
    pub actual: i128,
    pub charged: i128,
    pub slack: i128,
}

/// Evaluates `actual cost <= charged + 100` for a completed run with gas tracking.
/// Returns None when the run is outside the inequality's domain.
pub fn gas_inequality(prog: &Prog, func: &Function, rec: &RunRecord) -> Option<GasVerdict> {
    if !prog.gas_enabled || rec.made_syscalls {
        return None;
    }
    if !matches!(rec.outcome, Outcome::Success(_) | Outcome::Panic(_)) {
        return None;
    }
    let mut actual: i128 = 100 * rec.steps as i128;
    for (b, n) in &rec.builtins {
        if let Some(p) = builtin_price(b) {
            actual += (p as i128) * (*n as i128);
        }
    }
    let charged: i128 = match (&rec.gas_counter, rec.available_gas) {
        (Some(left), Some(avail)) => {
            let left = left.to_bigint().to_i128()?;
            avail as i128 - left
        }
        _ => {
            // No gas builtin in the signature: the static entry cost is what the caller pays.
            prog.runner.initial_required_gas(func)? as i128
        }
    };
    Some(GasVerdict { actual, charged, slack: charged + 100 - actual })
}

/// Names of the generic libfuncs of the statements executed in a trace.
pub fn executed_libfuncs(prog: &Prog, rec: &RunRecord, out: &mut HashSet<String>) {
    let mut seen = HashSet::new();
    for (pc, _, _) in &rec.trace {
        if let Some(si) = prog.layout.statement_at(&prog.builder, *pc) {
            if seen.insert(si) {
                if let Some(Statement::Invocation(inv)) = prog.program.statements.get(si) {
                    if let Ok(l) = prog.builder.registry().get_libfunc(&inv.libfunc_id) {
                        let _ = l;
                    }
                    let name = inv.libfunc_id.to_string();
                    let generic = name.split('<').next().unwrap_or(&name).to_string();
                    out.insert(generic);
                }
            }
        }
    }
}

#[allow(dead_code)]
fn _unused(_: Hint) {}

/// Generic libfunc names statically reachable from `func` (following branches and user function
/// calls). Unlike the trace this also sees libfuncs that compile to no instructions.
pub fn reachable_libfuncs(program: &Program, func: &Function) -> HashSet<String> {
    use cairo_lang_sierra::program::{BranchTarget, GenericArg};
    let decls: HashMap<u64, (&str, Option<usize>)> = program
        .libfunc_declarations
        .iter()
        .map(|d| {
            let callee = d.long_id.generic_args.iter().find_map(|a| match a {
                GenericArg::UserFunc(f) => program.funcs.iter().position(|x| x.id == *f),
                _ => None,
            });
            (d.id.id, (d.long_id.generic_id.0.as_str(), callee))
        })
        .collect();
    let mut out = HashSet::new();
    let mut seen = vec![false; program.statements.len()];
    let mut stack = vec![func.entry_point.0];
    while let Some(i) = stack.pop() {
        if i >= seen.len() || seen[i] {
            continue;
        }
        seen[i] = true;
        if let Statement::Invocation(inv) = &program.statements[i] {
            if let Some((name, callee)) = decls.get(&inv.libfunc_id.id) {
                out.insert(name.to_string());
                if let Some(c) = callee {
                    stack.push(program.funcs[*c].entry_point.0);
                }
            }
            for b in &inv.branches {
                stack.push(match b.target {
                    BranchTarget::Fallthrough => i + 1,
                    BranchTarget::Statement(s) => s.0,
                });
            }
        }
    }
    out
}
