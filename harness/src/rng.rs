//! Deterministic PRNG (SplitMix64 seeding + xoshiro256**). No wall-clock or address entropy.

#[derive(Clone, Debug)]
pub struct Rng {
    s: [u64; 4],
}

fn splitmix(x: &mut u64) -> u64 {
    *x = x.wrapping_add(0x9E37_79B9_7F4A_7C15);
    let mut z = *x;
    z = (z ^ (z >> 30)).wrapping_mul(0xBF58_476D_1CE4_E5B9);
    z = (z ^ (z >> 27)).wrapping_mul(0x94D0_49BB_1331_11EB);
    z ^ (z >> 31)
}

impl Rng {
    pub fn new(seed: u64) -> Self {
        let mut x = seed;
        Rng { s: [splitmix(&mut x), splitmix(&mut x), splitmix(&mut x), splitmix(&mut x)] }
    }
    /// Derives an independent stream from a seed and a list of stream identifiers.
    pub fn derive(seed: u64, ids: &[u64]) -> Self {
        let mut x = seed ^ 0xA5A5_5A5A_DEAD_BEEF;
        let mut acc = splitmix(&mut x);
        for id in ids {
            x ^= id.wrapping_mul(0x9E37_79B9_7F4A_7C15);
            acc ^= splitmix(&mut x);
        }
        Rng::new(acc)
    }
    pub fn next_u64(&mut self) -> u64 {
        let result = self.s[1].wrapping_mul(5).rotate_left(7).wrapping_mul(9);
        let t = self.s[1] << 17;
        self.s[2] ^= self.s[0];
        self.s[3] ^= self.s[1];
        self.s[1] ^= self.s[2];
        self.s[0] ^= self.s[3];
        self.s[2] ^= t;
        self.s[3] = self.s[3].rotate_left(45);
        result
    }
    /// Uniform in `0..n` (n > 0).
    pub fn below(&mut self, n: usize) -> usize {
        assert!(n > 0);
        (self.next_u64() % (n as u64)) as usize
    }
    /// Uniform in `lo..=hi`.
    pub fn range(&mut self, lo: i64, hi: i64) -> i64 {
        assert!(lo <= hi);
        let span = (hi as i128 - lo as i128 + 1) as u128;
        (lo as i128 + (self.next_u64() as u128 % span) as i128) as i64
    }
    pub fn chance(&mut self, num: u32, den: u32) -> bool {
        (self.next_u64() % den as u64) < num as u64
    }
    pub fn bool(&mut self) -> bool {
        self.next_u64() & 1 == 1
    }
    pub fn pick<'a, T>(&mut self, xs: &'a [T]) -> &'a T {
        &xs[self.below(xs.len())]
    }
    pub fn shuffle<T>(&mut self, xs: &mut [T]) {
        for i in (1..xs.len()).rev() {
            let j = self.below(i + 1);
            xs.swap(i, j);
        }
    }
    pub fn bytes(&mut self, n: usize) -> Vec<u8> {
        (0..n).map(|_| self.next_u64() as u8).collect()
    }
}

/// FNV-1a 64-bit hash, used for case identities (stable across runs and platforms).
pub fn fnv(data: &[u8]) -> u64 {
    let mut h: u64 = 0xcbf2_9ce4_8422_2325;
    for b in data {
        h ^= *b as u64;
        h = h.wrapping_mul(0x0000_0100_0000_01B3);
    }
    h
}

pub fn fnv_str(s: &str) -> u64 {
    fnv(s.as_bytes())
}
