#!/bin/bash
# Burn-in helper (not a registered check): runs the given tier of the given checks one after the
# other on the current tree and appends one line per run to work/burnin.log.
# Usage: burnin.sh <tier> <seed> <ID>...
TIER=$1; SEED=$2; shift 2
cd /verif
for C in "$@"; do
  START=$(date +%s)
  OUT=$(VERIF_SEED=$SEED ./check "$C" --tier "$TIER" 2>&1)
  RC=$?
  END=$(date +%s)
  SUMMARY=$(echo "$OUT" | grep -m1 "^SUMMARY" | cut -c1-300)
  echo "$(date -u +%FT%TZ) check=$C tier=$TIER seed=$SEED exit=$RC secs=$((END-START)) $SUMMARY" >> work/burnin.log
  echo "$OUT" | grep -E "^(VIOLATION|INCONCLUSIVE)" | cut -c1-600 | head -8 >> work/burnin.log
done
