#!/bin/bash
# Miri leg of C12 / C13: runs /verif/miri_leg (a parser-only salsa database, path-dependent on
# /repo's working tree) under `cargo +nightly miri`.
# Usage: miri_leg.sh C12|C13 <seed> <log>
# Exit: 0 = clean (log holds the MIRI-LEG observation lines), 66 = Miri report or oracle failure,
#       2 = could not build/run (inconclusive).
set -u
ID=$1; SEED=$2; LOG=$3
cd /verif/miri_leg || exit 2
export CARGO_NET_OFFLINE=true
export MIRIFLAGS="-Zmiri-disable-isolation"
TD=/verif/target/miri
[ -f Cargo.lock ] || cp /repo/Cargo.lock . 2>/dev/null
# Build once (and make sure the tree still builds under Miri's cfg).
if ! cargo +nightly miri run --offline --target-dir $TD -- selftest >"$LOG.build" 2>&1; then
  if ! grep -q "usage: history" "$LOG.build"; then echo "miri build failed, see $LOG.build"; exit 2; fi
fi
N=${VERIF_MIRI_RUNS:-16}
case "$ID" in
  C13) MODE=history; EXTRA=3;;
  C12) MODE=threads; EXTRA="";;
  *) echo "no miri leg for $ID"; exit 2;;
esac
: >"$LOG"
seq 0 $((N-1)) | timeout 2h xargs -P 16 -I{} bash -c \
  "cargo +nightly miri run --offline --target-dir $TD -- $MODE \$(( $SEED * 1000 + {} )) $EXTRA > $LOG.{} 2>&1; echo \"exit=\$? run={}\" >> $LOG.{}"
RC=0
for i in $(seq 0 $((N-1))); do
  F="$LOG.$i"
  grep -h "^MIRI-LEG" "$F" >>"$LOG" 2>/dev/null
  if grep -q "MIRI-LEG-VIOLATION\|Undefined Behavior\|Data race detected\|error: unsupported operation\|memory leaked" "$F"; then
    if grep -q "error: unsupported operation" "$F" && ! grep -q "MIRI-LEG-VIOLATION\|Undefined Behavior\|Data race detected" "$F"; then
      echo "run $i: unsupported operation under Miri (inconclusive)" >>"$LOG"; [ $RC -eq 0 ] && RC=2
    else
      echo "---- run $i" >>"$LOG"; tail -60 "$F" >>"$LOG"; RC=66
    fi
  elif ! grep -q "^exit=0" "$F"; then
    echo "run $i: did not finish cleanly: $(tail -3 "$F" | tr '\n' ' ')" >>"$LOG"; [ $RC -eq 0 ] && RC=2
  fi
  rm -f "$F"
done
exit $RC
