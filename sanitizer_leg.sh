#!/bin/bash
# Builds the harness (and /repo's working tree) under a compiler sanitizer and runs one worker of a
# check under it. Usage: sanitizer_leg.sh tsan|asan <ID> <seed> <out.json> <log>
# Exit: 0 = clean, 66 = sanitizer report (log holds it), 2 = could not build/run (inconclusive).
set -u
KIND=$1; ID=$2; SEED=$3; OUT=$4; LOG=$5
cd /verif
export CARGO_NET_OFFLINE=true
TARGET=x86_64-unknown-linux-gnu
case "$KIND" in
  tsan)
    DIR=/verif/target/tsan
    if ! RUSTFLAGS="-Zsanitizer=thread" cargo +nightly build -Zbuild-std --target $TARGET --release --offline \
        --manifest-path harness/Cargo.toml --target-dir $DIR >"$LOG.build" 2>&1; then
      echo "sanitizer build failed, see $LOG.build"; exit 2
    fi
    export TSAN_OPTIONS="halt_on_error=1 exitcode=66 second_deadlock_stack=1"
    ;;
  asan)
    DIR=/verif/target/asan
    if ! RUSTFLAGS="-Zsanitizer=address -Cforce-frame-pointers=yes" cargo +nightly build --target $TARGET --release --offline \
        --manifest-path harness/Cargo.toml --target-dir $DIR >"$LOG.build" 2>&1; then
      echo "sanitizer build failed, see $LOG.build"; exit 2
    fi
    export ASAN_OPTIONS="detect_leaks=0:halt_on_error=1:exitcode=66:abort_on_error=0"
    ;;
  *) echo "unknown sanitizer $KIND"; exit 2;;
esac
BIN=$DIR/$TARGET/release/cairo-verif
RAYON_NUM_THREADS=16 VERIF_SANITIZER_LEG=1 timeout 3h "$BIN" worker "$ID" --tier quick --seed "$SEED" --shard 0 --nshards "${VERIF_LEG_NSHARDS:-1}" --out "$OUT" >"$LOG" 2>&1
RC=$?
if [ $RC -eq 66 ] || grep -q "^SUMMARY: \(ThreadSanitizer\|AddressSanitizer\)" "$LOG"; then exit 66; fi
if [ $RC -ne 0 ]; then echo "sanitizer worker exited with $RC"; exit 2; fi
exit 0
