//! Miri leg of C12 / C13: a parser-only salsa database small enough for the interpreter.
//!
//! `history <seed> <edits>`: one database lives through a seeded history of edits of one file
//!   (`override_file_content!`), with queries between edits; after every edit the incremental
//!   answer (tree fingerprint + diagnostics) must equal that of a fresh database. (C13)
//! `threads <seed>`: clones of one database parse the same and different files on two threads
//!   while the main thread queries too; all answers must equal the sequential ones. (C12)
//!
//! Miri itself is the second monitor: undefined behaviour, data races, use of a value of an earlier
//! salsa revision after it was freed (the contract of the `unsafe impl salsa::SalsaValue` marker
//! impls) abort the run with a report.
//!
//! Output: one line `MIRI-LEG ...` per observation batch; exit 0 = held, 1 = an oracle failed
//! (`MIRI-LEG-VIOLATION ...`), anything else (Miri's own report) is recognised by the driver
//! from "Undefined Behavior" / "Data race" in stderr.

use std::path::PathBuf;

use cairo_lang_filesystem::db::FilesGroup;
use cairo_lang_filesystem::ids::FileLongId;
use cairo_lang_filesystem::override_file_content;
use cairo_lang_parser::db::ParserGroup;
use cairo_lang_parser::utils::SimpleParserDatabase;
use cairo_lang_utils::Intern;
use salsa::Database;

struct Rng(u64);
impl Rng {
    fn next(&mut self) -> u64 {
        // splitmix64
        self.0 = self.0.wrapping_add(0x9E3779B97F4A7C15);
        let mut z = self.0;
        z = (z ^ (z >> 30)).wrapping_mul(0xBF58476D1CE4E5B9);
        z = (z ^ (z >> 27)).wrapping_mul(0x94D049BB133111EB);
        z ^ (z >> 31)
    }
    fn below(&mut self, n: usize) -> usize {
        (self.next() % n as u64) as usize
    }
}

const LINES: &[&str] = &[
    "fn f(a: u8) -> u8 { a + 1 }",
    "fn g() { let x = 5; }",
    "// a comment",
    "struct S { a: felt252 }",
    "use a::b;",
    "fn h( { }",
    "mod m { fn k() {} }",
    "const C: u8 = 3;",
    "fn p() { if true { 1 } else { 2 }; }",
    "#[derive(Drop)] enum E { A, B: u8 }",
    "",
    "} fn",
];

fn path(i: usize) -> PathBuf {
    PathBuf::from(format!("/virt/f{i}.cairo"))
}

fn set_override(db: &mut SimpleParserDatabase, i: usize, content: Option<String>) {
    let db_mut: &mut dyn Database = db;
    let file_id = FileLongId::OnDisk(path(i)).intern(db_mut);
    override_file_content!(db_mut, file_id, content.map(|c| c.into()));
}

/// Everything the parser answers about file `i`: a fingerprint of the tree, and the diagnostics.
fn observe(db: &SimpleParserDatabase, i: usize) -> String {
    let file_id = FileLongId::OnDisk(path(i)).intern(db);
    let mut out = String::new();
    match db.file_syntax(file_id) {
        Ok(root) => {
            let mut n = 0usize;
            for node in root.descendants(db) {
                let span = node.span(db);
                out.push_str(&format!("{:?}@{:?};", node.kind(db), span));
                n += 1;
            }
            out.push_str(&format!("|nodes={n}|text={}", root.get_text(db)));
        }
        Err(_) => out.push_str("NO-SYNTAX"),
    }
    out.push_str("|diags=");
    out.push_str(&db.file_syntax_diagnostics(file_id).format(db));
    out
}

fn history(seed: u64, edits: usize) -> i32 {
    let mut rng = Rng(seed);
    let mut db = SimpleParserDatabase::default();
    let mut lines: Vec<&str> = (0..2).map(|_| LINES[rng.below(LINES.len())]).collect();
    let mut checked = 0;
    let mut nodes = 0usize;
    for step in 0..=edits {
        if step > 0 {
            match rng.below(4) {
                0 if lines.len() > 1 => {
                    let at = rng.below(lines.len());
                    lines.remove(at);
                }
                1 => {
                    let at = rng.below(lines.len() + 1);
                    lines.insert(at, LINES[rng.below(LINES.len())]);
                }
                2 => {
                    let at = rng.below(lines.len());
                    lines[at] = LINES[rng.below(LINES.len())];
                }
                // Same content again: a new revision in which nothing changed.
                _ => {}
            }
        }
        let text = lines.join("\n");
        set_override(&mut db, 0, Some(text.clone()));
        // Query twice (second answer comes from the memo), sometimes skip the query so that the
        // next edit lands on an unverified memo.
        let inc = if rng.below(4) != 0 || step == edits {
            let a = observe(&db, 0);
            let b = observe(&db, 0);
            if a != b {
                println!("MIRI-LEG-VIOLATION property=C13 seed={seed} step={step} memoized answer differs from the first answer");
                return 1;
            }
            Some(a)
        } else {
            None
        };
        if let Some(inc) = inc {
            let mut fresh = SimpleParserDatabase::default();
            set_override(&mut fresh, 0, Some(text.clone()));
            let want = observe(&fresh, 0);
            if inc != want {
                println!("MIRI-LEG-VIOLATION property=C13 seed={seed} step={step} incremental answer differs from a fresh database\n text: {text:?}\n incremental: {inc}\n fresh: {want}");
                return 1;
            }
            checked += 1;
            nodes += inc.matches(';').count();
        }
    }
    println!("MIRI-LEG history seed={seed} edits={edits} revisions_compared={checked} nodes_compared={nodes}");
    0
}

fn threads(seed: u64) -> i32 {
    let mut rng = Rng(seed);
    let mut db = SimpleParserDatabase::default();
    let texts: Vec<String> = (0..3).map(|_| (0..2).map(|_| LINES[rng.below(LINES.len())]).collect::<Vec<_>>().join("\n")).collect();
    for (i, t) in texts.iter().enumerate() {
        set_override(&mut db, i, Some(t.clone()));
    }
    // Sequential reference on its own database.
    let mut reference_db = SimpleParserDatabase::default();
    for (i, t) in texts.iter().enumerate() {
        set_override(&mut reference_db, i, Some(t.clone()));
    }
    let want: Vec<String> = (0..3).map(|i| observe(&reference_db, i)).collect();
    let order_a: Vec<usize> = if rng.below(2) == 0 { vec![0, 1, 2] } else { vec![2, 0, 1] };
    let order_b: Vec<usize> = if rng.below(2) == 0 { vec![0, 2, 1] } else { vec![1, 0, 2] };
    let (db_a, db_b) = (db.clone(), db.clone());
    let ta = std::thread::spawn(move || order_a.into_iter().map(|i| (i, observe(&db_a, i))).collect::<Vec<_>>());
    let tb = std::thread::spawn(move || order_b.into_iter().map(|i| (i, observe(&db_b, i))).collect::<Vec<_>>());
    let main_obs: Vec<(usize, String)> = vec![(1, observe(&db, 1)), (0, observe(&db, 0))];
    let mut all = main_obs;
    all.extend(ta.join().expect("thread a"));
    all.extend(tb.join().expect("thread b"));
    for (i, got) in &all {
        if got != &want[*i] {
            println!("MIRI-LEG-VIOLATION property=C12 seed={seed} file={i} concurrent answer differs from the sequential one\n got: {got}\n want: {}", want[*i]);
            return 1;
        }
    }
    println!("MIRI-LEG threads seed={seed} concurrent_answers_compared={} threads=3", all.len());
    0
}

fn main() {
    let args: Vec<String> = std::env::args().collect();
    let mode = args.get(1).map(|s| s.as_str()).unwrap_or("history");
    let seed: u64 = args.get(2).and_then(|s| s.parse().ok()).unwrap_or(1);
    let rc = match mode {
        "history" => history(seed, args.get(3).and_then(|s| s.parse().ok()).unwrap_or(4)),
        "threads" => threads(seed),
        _ => {
            eprintln!("usage: history <seed> <edits> | threads <seed>");
            2
        }
    };
    std::process::exit(rc);
}
