#!/usr/bin/env python3
"""Generates /verif/MANIFEST.json from the table below (kept next to the checks so the two do not drift)."""
import json, subprocess, os

HOOK_COMMITS = subprocess.run(
    ["git", "-C", "/repo", "log", "--format=%H %s", "--grep=^verif hook"],
    capture_output=True, text=True).stdout.strip().splitlines()

# id -> (engine, category, technique, level text, level note, design ref)
CHECKS = {
    "C09": ("frontend", "exploration",
            "runtime monitoring: panic/abort/no-progress/span monitor over mutated source texts",
            "Every stage of the front end (lexer, parser, tree walk, formatter under 3 configurations, syntax+semantic+lowering "
            "diagnostics with plugins) is executed on seeded byte/token/subtree mutants and token soups of every .cairo file in the "
            "repository, on threads with the real tools' 8 MiB stack, under catch_unwind, a crash journal and a logical parser "
            "progress counter (hook H5). Held = no panic, abort, no-progress trip or out-of-file diagnostic span on the inputs "
            "observed; nothing is claimed about inputs not generated.",
            "Trusted: the harness's worker supervision (journal + restart), the 8 MiB stack as the 'ordinary' limit, hook H5's "
            "threshold of 10^6 peeks without consuming a token.",
            "DESIGN.md 3/C09"),
    "C10": ("frontend", "exploration",
            "runtime monitoring: structural invariant walk of the live syntax tree on mutated inputs",
            "The lossless-tree invariants (leaf concatenation == input, offsets/widths/spans tile, leaf text == input[span], "
            "get_text == input[span]) are evaluated on the real parser's output for every .cairo file of the repository and for "
            "tens of thousands (quick) to 1.5 million (thorough) seeded mutants that drive the error-recovery paths. Held = no "
            "discrepancy on the trees observed.",
            "Trusted: the public SyntaxNode API used for the walk (offset/width/span/text/get_children).",
            "DESIGN.md 3/C10"),
}

PENDING = {
}

ENGINES = [
    {"name": "frontend", "path": "harness/src/frontend.rs", "serves_properties": ["C09", "C10"],
     "kind_free_text": "text mutators + lossless tree walker + totality monitor (catch_unwind, crash journal, H5 progress counter)"},
]


def main():
    props = [json.loads(l) for l in open("/verif/properties.jsonl")]
    checks = []
    for p in props:
        pid = p["id"]
        if pid not in CHECKS:
            continue
        engine, cat, technique, text, note, ref = CHECKS[pid]
        checks.append({
            "property_id": pid,
            "quick_cmd": f"./check {pid} --tier quick",
            "thorough_cmd": f"./check {pid} --tier thorough",
            "evidence_file": f"evidence/{pid}.json",
            "replay_cmd_template": f"./check {pid} --replay {{path}}",
            "engine": engine,
            "level_claimed": {"category": cat, "text": text, "design_ref": ref},
            "level_note": note,
            "technique": technique,
        })
    not_applicable = []
    for p in props:
        if p["id"] not in CHECKS:
            not_applicable.append({
                "property_id": p["id"],
                "reason": PENDING.get(p["id"], "not claimed yet: the monitor designed in DESIGN.md for this property is "
                                               "not implemented/burnt-in at this commit (no technique switch; see DESIGN.md)"),
            })
    manifest = {
        "version": 1,
        "setup_cmd": "mkdir -p work evidence && CARGO_NET_OFFLINE=true cargo build --release --offline --manifest-path harness/Cargo.toml",
        "hooks": {
            "guard": "cargo feature `verif` on cairo-lang-utils, cairo-lang-lowering, cairo-lang-compiler, cairo-lang-parser (off by default)",
            "enable": "the harness crate /verif/harness depends on /repo/crates/* by path with features = [\"verif\"]; "
                      "./check rebuilds it (and therefore /repo's working tree) before every run",
            "baseline_off_cmd": "cd /repo && cargo nextest run --workspace --no-fail-fast --test-threads 8 --offline",
            "source_commits": [l.split()[0] for l in HOOK_COMMITS][::-1],
            "add_only": True,
        },
        "engines": [e for e in ENGINES if any(p in CHECKS for p in e["serves_properties"])],
        "checks": checks,
        "not_applicable": not_applicable,
        "notes": "All checks are runtime monitors over executions of the real code (see DESIGN.md). Exit 0 = held on "
                 "everything observed, 1 = VIOLATION line(s), 3 = run observed too little (INCONCLUSIVE-RUN line, no "
                 "verdict). VERIF_SEED and VERIF_TIER are honoured. Known findings: known_findings.txt.",
    }
    json.dump(manifest, open("/verif/MANIFEST.json", "w"), indent=1)
    print("wrote MANIFEST.json with", len(checks), "checks,", len(not_applicable), "not_applicable")


if __name__ == "__main__":
    main()
