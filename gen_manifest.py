#!/usr/bin/env python3
"""Generates /verif/MANIFEST.json from the table below (kept next to the checks so the two do not drift)."""
import json, subprocess, os

HOOK_COMMITS = subprocess.run(
    ["git", "-C", "/repo", "log", "--format=%H %s", "--grep=^verif hook"],
    capture_output=True, text=True).stdout.strip().splitlines()

# id -> (engine, category, technique, level text, level note, design ref)
CHECKS = {
    "C09": ("frontend", "exploration",
            "runtime monitoring: panic/abort/no-progress/span monitor over mutated source texts",
            "Every stage of the front end (lexer, parser, tree walk, formatter under 3 configurations, syntax+semantic+lowering "
            "diagnostics with plugins) is executed on seeded byte/token/subtree mutants and token soups of every .cairo file in the "
            "repository, on threads with the real tools' 8 MiB stack, under catch_unwind, a crash journal and a logical parser "
            "progress counter (hook H5). Held = no panic, abort, no-progress trip or out-of-file diagnostic span on the inputs "
            "observed; nothing is claimed about inputs not generated. Thorough tier: 1/16 of the quick workload is repeated in an "
            "AddressSanitizer build of the harness and /repo (sanitizer_leg.sh asan).",
            "Trusted: the harness's worker supervision (journal + restart), the 8 MiB stack as the 'ordinary' limit, hook H5's "
            "threshold of 10^6 peeks without consuming a token.",
            "DESIGN.md 3/C09"),
    "C10": ("frontend", "exploration",
            "runtime monitoring: structural invariant walk of the live syntax tree on mutated inputs",
            "The lossless-tree invariants (leaf concatenation == input, offsets/widths/spans tile, leaf text == input[span], "
            "get_text == input[span]) are evaluated on the real parser's output for every .cairo file of the repository and for "
            "tens of thousands (quick) to 1.5 million (thorough) seeded mutants that drive the error-recovery paths. Held = no "
            "discrepancy on the trees observed.",
            "Trusted: the public SyntaxNode API used for the walk (offset/width/span/text/get_children).",
            "DESIGN.md 3/C10"),
}

CHECKS.update({
    "C02": ("exec", "exploration",
            "runtime monitoring: result-class and step-bound monitor over honest VM executions",
            "Functions of every e2e libfunc snippet and examples/ program (several optimization configurations, both metadata "
            "solvers) and every corelib #[test] are executed in the real cairo-vm through the runner's own entry code and hint "
            "processor, on inputs generated in-range from the Sierra parameter types and four gas budgets including 'exactly the "
            "entry cost'; small coverage programs (dictionaries, u256/u128 helpers, casts, circuits, very large ap changes, bounded-int division by constants) have their first three scalar inputs swept over the whole boundary set (every 2^k, 2^k+-1, type bounds). Held = no VM-level failure and steps <= gas/100+1 on every run observed whose program/trace uses audited "
            "libfuncs only; the evidence lists the audited libfuncs that no run executed (blind spots).",
            "Trusted: cairo-vm, the runner's honest hint processor, the argument generator's notion of in-range values.",
            "DESIGN.md 3/C02"),
    "C04": ("exec", "exploration",
            "runtime monitoring: conservation inequality (gas charged >= priced trace resources) over recorded executions",
            "For every completed run of the C02 workload with gas tracking and no syscalls, the steps and builtin counters of the "
            "recorded trace are priced with the runner's own table and compared with the gas actually deducted (+100 for the "
            "caller's return step). The minimum slack observed on the unchanged tree is exactly 0, so a one-step undercharge on "
            "any executed path is visible. Held = inequality true on every run observed, under both solver settings.",
            "Trusted: ExecutionResources as reported by cairo-vm; header/footer step removal identical to SierraCasmRunner::run_function.",
            "DESIGN.md 3/C04"),
    "C14": ("sierra", "exploration",
            "runtime monitoring: panic/abort/allocation monitor over mutated Sierra programs and serialized classes",
            "Hundreds of thousands (quick) to millions (thorough) of seeded program-level mutants of every Sierra program in the "
            "repository, and felt-level mutants of every contract class JSON, are pushed through the untrusted-input pipeline "
            "(registry, type sizes, metadata with the linear solvers and with both legacy solver configurations, Sierra->CASM, "
            "class compilation) under catch_unwind, RLIMIT_AS and a crash journal. Held = every observed execution returned a "
            "value or an error.",
            "Trusted: the worker supervision; 6 GiB as the bound for 'allocates without bound'.",
            "DESIGN.md 3/C14"),
    "C15": ("sierra", "exploration",
            "runtime monitoring: independent reference checker run next to the real acceptance decision",
            "Every mutant (and unmutated corpus program) that registry+metadata+compile accept is re-checked by an independent "
            "typing/linearity data-flow checker written for this purpose. Held = the checker accepted every program the "
            "compiler accepted (tens of thousands of accepted mutants per quick run).",
            "Trusted: libfunc signatures as exposed by the program registry; the checker's own copy/drop table.",
            "DESIGN.md 3/C15"),
    "C17": ("exec", "exploration",
            "runtime monitoring: shadow call stack and pc-range monitor over relocated VM traces",
            "On every run of the C02 workload the relocated trace is replayed against the static artefacts: each dynamic call "
            "instance of a function with a declared ap change must move ap by exactly that amount, each pc must start an "
            "instruction inside exactly one statement's recorded byte range, statement ranges must tile the code. Held on all "
            "call instances observed (tens of thousands per quick run), under both ap-change solvers.",
            "Trusted: the relocated trace of cairo-vm; instruction kinds from CairoProgram.instructions.",
            "DESIGN.md 3/C17"),
})

CHECKS.update({
    "C11": ("formatter", "exploration",
            "runtime monitoring: idempotence / token and comment conservation oracle over formatter executions",
            "The real formatter is run on every error-free .cairo file of the repository and on seeded layout mutants of them "
            "(whitespace re-rolled, uniquely numbered comments injected, identifiers renamed to stress the line breaker, trailing "
            "commas dropped) under the default configuration, a sorting/merging-off configuration and random points of the option "
            "lattice; each output is re-parsed and re-formatted, and tokens, comments, mod declarations and expanded use paths are "
            "compared; generated import blocks and generated programs are inputs too. The oracle tests itself at start-up against eight "
            "deliberately broken formatters. Held apart from the six recorded known findings, all about comments in the middle of "
            "constructs (two of them attributed by delta: the same text without the injected comments passes).",
            "Trusted: the repo's lexer for tokenisation on both sides; the deliberate canonicalisations of should_skip_terminal "
            "(trailing commas, `;` after block statements, `::` before generic args in type paths) are treated as layout.",
            "DESIGN.md 3/C11"),
    "C12": ("dbscen", "exploration",
            "runtime monitoring: byte-equality oracle over compilations under varied thread pools, injected delays and query orders",
            "Whole projects are compiled repeatedly on fresh databases inside rayon pools of 1/2/4/16 threads with seeded delays at "
            "the warm-up task boundaries (hook H4), seeded prefixes of unrelated queries (whole-crate diagnostics / Sierra on clones in parallel, another crate first, the Sierra of single functions in a seeded order) and both query orders; diagnostics, Sierra "
            "(debug-name and canonical), CASM and contract classes must equal the single-threaded reference byte for byte. The "
            "number of distinct raw-intern-id fingerprints shows how many distinguishable interleavings were actually observed. "
            "Thorough tier: the quick workload is repeated under ThreadSanitizer (-Zbuild-std, sanitizer_leg.sh tsan), and a "
            "parser-only database is queried from three threads under Miri (miri_leg.sh C12).",
            "Trusted: schedule diversity is sampled, not enumerated; hook H4 only adds delays at task boundaries.",
            "DESIGN.md 3/C12"),
    "C13": ("dbscen", "exploration",
            "runtime monitoring: incremental-vs-fresh equality oracle over recorded edit histories",
            "Seeded histories of 14 (quick) or 30 (thorough) edits of 19 kinds (incl. pure permutations of members / lines / items) on the examples project, /verif's playground project and a playground with standing ownership errors (diagnostics with located notes) are applied to one long-lived database with "
            "different queries asked in between; at comparison points diagnostics (with locations) and Sierra are compared with a "
            "fresh database holding the same contents. salsa's `executing query` events prove reuse: the incremental side executed "
            "~0.5% of the fresh side's queries on the unchanged tree. Thorough tier: 1/16 of the quick histories are repeated "
            "under AddressSanitizer, and 16 mini-histories on a parser-only database run under Miri (miri_leg.sh C13).",
            "Trusted: override_file_content! as the edit mechanism on both sides.",
            "DESIGN.md 3/C13"),
    "C16": ("casm", "exploration",
            "runtime monitoring: reference one-step semantics evaluated next to the real encoder + VM step",
            "All 180 instruction shapes (including the blake2s and {QM31} opcode extensions) are instantiated with boundary offsets and immediates, assembled and encoded by the "
            "toolchain, decoded and executed for one step by cairo-vm from seeded machine states; registers and all touched cells "
            "are compared with a reference semantics written from the CASM instruction type; encoded length is compared with "
            "op_size and with the VM decoder's size.",
            "Trusted: cairo-vm's step as the executor; states where the VM must deduce a binop operand, and results outside the "
            "address range, are not modelled (counted). The blake2s reference is written from RFC 7693, the QM31 reference from the field definition (CM31[u]/(u^2-2-i)); {QM31} forms without an operation are encode/decode only.",
            "DESIGN.md 3/C16"),
    "C18": ("serde", "exploration",
            "runtime monitoring: round-trip equalities observed on real serializer/compiler executions",
            "Every parseable Sierra program of the repository, the Sierra compiled from the e2e/examples snippets and from generated programs (thorough: four configurations, and the whole corelib test suite as one program) is pushed "
            "through the text printer/parser, the felt252 serialization behind ContractClass, the versioned JSON, and compiled to "
            "CASM in five id representations; texts, programs and CASM are compared. Held apart from one recorded finding (debug names of closure types and of the functions generated for closures are not in the text grammar).",
            "Trusted: CanonicalReplacer as the canonical form the felt encoding is specified for.",
            "DESIGN.md 3/C18"),
    "C19": ("classes", "exploration",
            "runtime monitoring: structural invariants on live class objects + execution of every entry point from the class bytecode",
            "All contracts of the Starknet test crate, all stored contract classes and seeded generated contracts (1-6 external functions over 14 body templates reaching every builtin incl. ec_op and the circuit builtins, optional constructor, 0-3 L1 handlers in seeded order) are compiled; "
            "each CASM class is checked against 8 invariants with an independent VM-decoder walk of the bytecode, and every entry "
            "point is executed in cairo-vm from the class's own bytecode with builtins in the declared order; wrong offsets, "
            "builtin-order slips or shifted code would surface as VM errors or pointers in foreign segments.",
            "Trusted: the OS calling convention as documented in casm_contract_class.rs, emulated by the harness.",
            "DESIGN.md 3/C19"),
    "C20": ("dbscen", "exploration",
            "runtime monitoring: cached-vs-source equality oracle with a cache-hit counter hook",
            "Pairs of databases that differ only in the corelib's cache_file compile the examples project, single example / "
            "bug-sample files and e2e snippets; and library crates other than the corelib (a hand-written feature library and generated library/dependent pairs) are compiled from source and from their own cache; diagnostics, Sierra and CASM must be equal. Hook H3 proves that lowerings were "
            "really served from the cache blob on one side and never on the other.",
            "Trusted: the cache blob is produced by the same build with the same settings.",
            "DESIGN.md 3/C20"),
})

CHECKS.update({
    "C01": ("generator", "exploration",
            "runtime monitoring: independent reference interpreter evaluated next to the real compile-and-run pipeline",
            "Seeded well-typed programs of a Cairo subset (structs incl. nested members, enums, options, tuples, arrays, fixed-size arrays, loops with break / continue, early return, closures, if-let, compound and member assignment, mid-expression assignment, idiom functions that take aggregates apart and rebuild them, comparisons and arithmetic against the constants the optimizer special-cases) are compiled by the real pipeline under three configurations and "
            "executed in the VM on several argument vectors; the decoded value or the exact panic data is compared with a "
            "big-integer interpreter of the generator's own AST that never looks at Sierra or CASM. Held = the two agreed on every "
            "(program, input, configuration) observed, apart from one recorded finding (plain variable reads in tuple / fixed-size array literals are resolved late), which the generator keeps out of the random programs.",
            "Trusted: the reference interpreter (written from the language reference and the corelib's documented panic strings); "
            "the typed result decoder.",
            "DESIGN.md 3/C01"),
    "C03": ("hintfault", "fault_enumeration",
            "runtime monitoring with fault injection: one hint occurrence answers dishonestly, the run's outcome is classified",
            "A wrapper around the runner's honest hint processor records every CoreHint occurrence of an honest run and then, one "
            "faulty run per (occurrence, fault class), pre-writes mutated values into the hint's output cells. Every faulty run "
            "that still SUCCEEDS must produce the honest run's decoded result. All CoreHint kinds the workloads reach (27 of 28; "
            "EvalCircuit is a blind spot) are faulted, with generic per-cell faults and coordinated alternative decompositions; a range-cast family (downcasts into ranges at, next to and across 2^128) is run on every boundary input.",
            "Trusted: cairo-vm as the verifier of the trace; single-occurrence faults only; syscall/cheatcode/entry-code hints "
            "excluded.",
            "DESIGN.md 3/C03"),
    "C05": ("metamorph", "exploration",
            "runtime monitoring: metamorphic comparison of executions across optimization configurations",
            "The same programs (e2e / examples snippets and generated programs on generated inputs - every user function, not only main - and the whole corelib test suite) are compiled under "
            "a lattice of optimization / inlining / const-folding / match-threshold / solver configurations and run; decoded "
            "results and test verdicts must equal those of the optimizations-disabled build. Hook H2 shows which optimization "
            "phases actually changed the IR during the run.",
            "Trusted: the typed result decoder; programs that read their own gas counter are outside the property.",
            "DESIGN.md 3/C05"),
    "C06": ("opmatrix", "exploration",
            "runtime monitoring: big-integer model evaluated next to compiled one-operation programs; exhaustive over 8-bit operands for the listed operations",
            "More than 750 (type, operation) wrappers (every operation trait under corelib/src/num/traits/ops incl. wide_square, bounded-int division by 27 constants and constrain at the same boundaries) are compiled and run on every 2^k, 2^k+-1 of the type (unary) or on each of them against several partners (binary), on structured operands 2^a+-2^b+-c and random ones; add, sub "
            "and mul on u8 and i8 are run on ALL 65536 operand pairs in the quick tier, every binary operation on u8/i8 in the "
            "thorough tier. The result (value, or panic vs value) is compared with ordinary integer arithmetic; a VM error on an honest run is a violation.",
            "Trusted: the model (integer arithmetic, truncating signed division, mod-P felt arithmetic).",
            "DESIGN.md 3/C06"),
    "C07": ("constcheck", "exploration",
            "runtime monitoring: differential oracle between the compile-time evaluator and the run-time execution of the same expression",
            "Seeded typed const-evaluable expressions (operators, casts, const fn calls, DivRem::div_rem calls, struct / tuple / match forms) are submitted as const items, as run-time twins with opaque arguments, and "
            "as literal-inline functions with constant folding on and off; acceptance/rejection and values must agree with what "
            "the compiled twin computes in the VM.",
            "Trusted: the run-time execution as the reference; expressions the const evaluator does not support are outside the "
            "domain.",
            "DESIGN.md 3/C07"),
    "C08": ("generator", "exploration",
            "runtime monitoring: acceptance monitor over generated programs and injected ownership violations, with the IR validator hook",
            "Every error-free generated program must compile to Sierra, validate, get metadata and CASM under every configuration "
            "of the lattice, with the lowering validator (hook H2) accepting the IR after every optimization phase (~1.8 million "
            "validations per quick run); every program with one injected use-after-move / undropped value / double move must be "
            "rejected, and so must every program of an ownership matrix (7 value kinds x 6 move forms x 18 control-flow shapes x 4 use forms, undropped and hand-written shapes), each of which has a valid twin that must compile to CASM.",
            "Trusted: the generator's ownership tracking (it decides where a moved variable can be re-mentioned).",
            "DESIGN.md 3/C08"),
})

PENDING = {
}

ENGINES = [
    {"name": "generator", "path": "harness/src/pgen.rs, harness/src/gencheck.rs", "serves_properties": ["C01", "C08"],
     "kind_free_text": "typed Cairo program generator + independent reference interpreter + ownership-violation injector"},
    {"name": "hintfault", "path": "harness/src/hintfault.rs", "serves_properties": ["C03"],
     "kind_free_text": "recording / fault-injecting wrapper around the runner's hint processor"},
    {"name": "metamorph", "path": "harness/src/metamorph.rs", "serves_properties": ["C05"],
     "kind_free_text": "configuration lattice comparator"},
    {"name": "opmatrix", "path": "harness/src/opmatrix.rs", "serves_properties": ["C06"],
     "kind_free_text": "operator matrix + big-integer model"},
    {"name": "constcheck", "path": "harness/src/constcheck.rs", "serves_properties": ["C07"],
     "kind_free_text": "const expression generator + run-time twin comparator"},
    {"name": "formatter", "path": "harness/src/fmtchecks.rs", "serves_properties": ["C11"],
     "kind_free_text": "layout mutators + idempotence / conservation oracle"},
    {"name": "dbscen", "path": "harness/src/dbscen.rs", "serves_properties": ["C12", "C13", "C20"],
     "kind_free_text": "database scenarios: schedules, edit histories, crate caches; salsa query-execution counter"},
    {"name": "casm", "path": "harness/src/casm_ref.rs", "serves_properties": ["C16"],
     "kind_free_text": "reference one-step CASM semantics vs cairo-vm"},
    {"name": "serde", "path": "harness/src/serde_checks.rs", "serves_properties": ["C18"],
     "kind_free_text": "Sierra round-trip oracles"},
    {"name": "classes", "path": "harness/src/classes.rs", "serves_properties": ["C19"],
     "kind_free_text": "class invariants + entry-point execution from class bytecode + contract generator"},
    {"name": "exec", "path": "harness/src/exec.rs, harness/src/execchecks.rs, harness/src/values.rs, harness/src/w2.rs",
     "serves_properties": ["C02", "C04", "C17"],
     "kind_free_text": "monitored VM runs (trace, resources, gas) of compiled snippets and corelib tests + trace monitors"},
    {"name": "sierra", "path": "harness/src/sierra_mut.rs", "serves_properties": ["C14", "C15"],
     "kind_free_text": "Sierra/felt mutators, untrusted-pipeline totality monitor, independent typing/linearity checker"},
    {"name": "frontend", "path": "harness/src/frontend.rs", "serves_properties": ["C09", "C10"],
     "kind_free_text": "text mutators + lossless tree walker + totality monitor (catch_unwind, crash journal, H5 progress counter)"},
]


def main():
    props = [json.loads(l) for l in open("/verif/properties.jsonl")]
    checks = []
    for p in props:
        pid = p["id"]
        if pid not in CHECKS:
            continue
        engine, cat, technique, text, note, ref = CHECKS[pid]
        checks.append({
            "property_id": pid,
            "quick_cmd": f"./check {pid} --tier quick",
            "thorough_cmd": f"./check {pid} --tier thorough",
            "evidence_file": f"evidence/{pid}.json",
            "replay_cmd_template": f"./check {pid} --replay {{path}}",
            "engine": engine,
            "level_claimed": {"category": cat, "text": text, "design_ref": ref},
            "level_note": note,
            "technique": technique,
        })
    not_applicable = []
    for p in props:
        if p["id"] not in CHECKS:
            not_applicable.append({
                "property_id": p["id"],
                "reason": PENDING.get(p["id"], "not claimed yet: the monitor designed in DESIGN.md for this property is "
                                               "not implemented/burnt-in at this commit (no technique switch; see DESIGN.md)"),
            })
    manifest = {
        "version": 1,
        "setup_cmd": "mkdir -p work evidence && CARGO_NET_OFFLINE=true cargo build --release --offline --manifest-path harness/Cargo.toml",
        "hooks": {
            "guard": "cargo feature `verif` on cairo-lang-utils, cairo-lang-lowering, cairo-lang-compiler, cairo-lang-parser (off by default)",
            "enable": "the harness crate /verif/harness depends on /repo/crates/* by path with features = [\"verif\"]; "
                      "./check rebuilds it (and therefore /repo's working tree) before every run",
            "baseline_off_cmd": "cd /repo && cargo nextest run --workspace --no-fail-fast --test-threads 8 --offline",
            "source_commits": [l.split()[0] for l in HOOK_COMMITS][::-1],
            "add_only": True,
        },
        "engines": [e for e in ENGINES if any(p in CHECKS for p in e["serves_properties"])],
        "checks": checks,
        "not_applicable": not_applicable,
        "notes": "All checks are runtime monitors over executions of the real code (see DESIGN.md). Exit 0 = held on "
                 "everything observed, 1 = VIOLATION line(s), 3 = run observed too little (INCONCLUSIVE-RUN line, no "
                 "verdict). VERIF_SEED and VERIF_TIER are honoured. Known findings: known_findings.txt.",
    }
    json.dump(manifest, open("/verif/MANIFEST.json", "w"), indent=1)
    print("wrote MANIFEST.json with", len(checks), "checks,", len(not_applicable), "not_applicable")


if __name__ == "__main__":
    main()
