#!/usr/bin/env python3
"""Generates /verif/MANIFEST.json from the table below (kept next to the checks so the two do not drift)."""
import json, subprocess, os

HOOK_COMMITS = subprocess.run(
    ["git", "-C", "/repo", "log", "--format=%H %s", "--grep=^verif hook"],
    capture_output=True, text=True).stdout.strip().splitlines()

# id -> (engine, category, technique, level text, level note, design ref)
CHECKS = {
    "C09": ("frontend", "exploration",
            "runtime monitoring: panic/abort/no-progress/span monitor over mutated source texts",
            "Every stage of the front end (lexer, parser, tree walk, formatter under 3 configurations, syntax+semantic+lowering "
            "diagnostics with plugins) is executed on seeded byte/token/subtree mutants and token soups of every .cairo file in the "
            "repository, on threads with the real tools' 8 MiB stack, under catch_unwind, a crash journal and a logical parser "
            "progress counter (hook H5). Held = no panic, abort, no-progress trip or out-of-file diagnostic span on the inputs "
            "observed; nothing is claimed about inputs not generated.",
            "Trusted: the harness's worker supervision (journal + restart), the 8 MiB stack as the 'ordinary' limit, hook H5's "
            "threshold of 10^6 peeks without consuming a token.",
            "DESIGN.md 3/C09"),
    "C10": ("frontend", "exploration",
            "runtime monitoring: structural invariant walk of the live syntax tree on mutated inputs",
            "The lossless-tree invariants (leaf concatenation == input, offsets/widths/spans tile, leaf text == input[span], "
            "get_text == input[span]) are evaluated on the real parser's output for every .cairo file of the repository and for "
            "tens of thousands (quick) to 1.5 million (thorough) seeded mutants that drive the error-recovery paths. Held = no "
            "discrepancy on the trees observed.",
            "Trusted: the public SyntaxNode API used for the walk (offset/width/span/text/get_children).",
            "DESIGN.md 3/C10"),
}

CHECKS.update({
    "C02": ("exec", "exploration",
            "runtime monitoring: result-class and step-bound monitor over honest VM executions",
            "Functions of every e2e libfunc snippet and examples/ program (several optimization configurations, both metadata "
            "solvers) and every corelib #[test] are executed in the real cairo-vm through the runner's own entry code and hint "
            "processor, on inputs generated in-range from the Sierra parameter types and four gas budgets including 'exactly the "
            "entry cost'. Held = no VM-level failure and steps <= gas/100+1 on every run observed whose program/trace uses audited "
            "libfuncs only; the evidence lists the audited libfuncs that no run executed (blind spots).",
            "Trusted: cairo-vm, the runner's honest hint processor, the argument generator's notion of in-range values.",
            "DESIGN.md 3/C02"),
    "C04": ("exec", "exploration",
            "runtime monitoring: conservation inequality (gas charged >= priced trace resources) over recorded executions",
            "For every completed run of the C02 workload with gas tracking and no syscalls, the steps and builtin counters of the "
            "recorded trace are priced with the runner's own table and compared with the gas actually deducted (+100 for the "
            "caller's return step). The minimum slack observed on the unchanged tree is exactly 0, so a one-step undercharge on "
            "any executed path is visible. Held = inequality true on every run observed, under both solver settings.",
            "Trusted: ExecutionResources as reported by cairo-vm; header/footer step removal identical to SierraCasmRunner::run_function.",
            "DESIGN.md 3/C04"),
    "C14": ("sierra", "exploration",
            "runtime monitoring: panic/abort/allocation monitor over mutated Sierra programs and serialized classes",
            "Hundreds of thousands (quick) to millions (thorough) of seeded program-level mutants of every Sierra program in the "
            "repository, and felt-level mutants of every contract class JSON, are pushed through the untrusted-input pipeline "
            "(registry, type sizes, metadata with the linear solvers and with both legacy solver configurations, Sierra->CASM, "
            "class compilation) under catch_unwind, RLIMIT_AS and a crash journal. Held = every observed execution returned a "
            "value or an error.",
            "Trusted: the worker supervision; 6 GiB as the bound for 'allocates without bound'.",
            "DESIGN.md 3/C14"),
    "C15": ("sierra", "exploration",
            "runtime monitoring: independent reference checker run next to the real acceptance decision",
            "Every mutant (and unmutated corpus program) that registry+metadata+compile accept is re-checked by an independent "
            "typing/linearity data-flow checker written for this purpose. Held = the checker accepted every program the "
            "compiler accepted (tens of thousands of accepted mutants per quick run).",
            "Trusted: libfunc signatures as exposed by the program registry; the checker's own copy/drop table.",
            "DESIGN.md 3/C15"),
    "C17": ("exec", "exploration",
            "runtime monitoring: shadow call stack and pc-range monitor over relocated VM traces",
            "On every run of the C02 workload the relocated trace is replayed against the static artefacts: each dynamic call "
            "instance of a function with a declared ap change must move ap by exactly that amount, each pc must start an "
            "instruction inside exactly one statement's recorded byte range, statement ranges must tile the code. Held on all "
            "call instances observed (tens of thousands per quick run), under both ap-change solvers.",
            "Trusted: the relocated trace of cairo-vm; instruction kinds from CairoProgram.instructions.",
            "DESIGN.md 3/C17"),
})

PENDING = {
}

ENGINES = [
    {"name": "exec", "path": "harness/src/exec.rs, harness/src/execchecks.rs, harness/src/values.rs, harness/src/w2.rs",
     "serves_properties": ["C02", "C04", "C17"],
     "kind_free_text": "monitored VM runs (trace, resources, gas) of compiled snippets and corelib tests + trace monitors"},
    {"name": "sierra", "path": "harness/src/sierra_mut.rs", "serves_properties": ["C14", "C15"],
     "kind_free_text": "Sierra/felt mutators, untrusted-pipeline totality monitor, independent typing/linearity checker"},
    {"name": "frontend", "path": "harness/src/frontend.rs", "serves_properties": ["C09", "C10"],
     "kind_free_text": "text mutators + lossless tree walker + totality monitor (catch_unwind, crash journal, H5 progress counter)"},
]


def main():
    props = [json.loads(l) for l in open("/verif/properties.jsonl")]
    checks = []
    for p in props:
        pid = p["id"]
        if pid not in CHECKS:
            continue
        engine, cat, technique, text, note, ref = CHECKS[pid]
        checks.append({
            "property_id": pid,
            "quick_cmd": f"./check {pid} --tier quick",
            "thorough_cmd": f"./check {pid} --tier thorough",
            "evidence_file": f"evidence/{pid}.json",
            "replay_cmd_template": f"./check {pid} --replay {{path}}",
            "engine": engine,
            "level_claimed": {"category": cat, "text": text, "design_ref": ref},
            "level_note": note,
            "technique": technique,
        })
    not_applicable = []
    for p in props:
        if p["id"] not in CHECKS:
            not_applicable.append({
                "property_id": p["id"],
                "reason": PENDING.get(p["id"], "not claimed yet: the monitor designed in DESIGN.md for this property is "
                                               "not implemented/burnt-in at this commit (no technique switch; see DESIGN.md)"),
            })
    manifest = {
        "version": 1,
        "setup_cmd": "mkdir -p work evidence && CARGO_NET_OFFLINE=true cargo build --release --offline --manifest-path harness/Cargo.toml",
        "hooks": {
            "guard": "cargo feature `verif` on cairo-lang-utils, cairo-lang-lowering, cairo-lang-compiler, cairo-lang-parser (off by default)",
            "enable": "the harness crate /verif/harness depends on /repo/crates/* by path with features = [\"verif\"]; "
                      "./check rebuilds it (and therefore /repo's working tree) before every run",
            "baseline_off_cmd": "cd /repo && cargo nextest run --workspace --no-fail-fast --test-threads 8 --offline",
            "source_commits": [l.split()[0] for l in HOOK_COMMITS][::-1],
            "add_only": True,
        },
        "engines": [e for e in ENGINES if any(p in CHECKS for p in e["serves_properties"])],
        "checks": checks,
        "not_applicable": not_applicable,
        "notes": "All checks are runtime monitors over executions of the real code (see DESIGN.md). Exit 0 = held on "
                 "everything observed, 1 = VIOLATION line(s), 3 = run observed too little (INCONCLUSIVE-RUN line, no "
                 "verdict). VERIF_SEED and VERIF_TIER are honoured. Known findings: known_findings.txt.",
    }
    json.dump(manifest, open("/verif/MANIFEST.json", "w"), indent=1)
    print("wrote MANIFEST.json with", len(checks), "checks,", len(not_applicable), "not_applicable")


if __name__ == "__main__":
    main()
